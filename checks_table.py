"""Table of engines, properties and jobs used by ./check.

A job = one test function of an engine's test binary, run as `shards`
processes per tier.  rapid jobs get -rapid.checks/-rapid.seed; plain jobs get
VERIF_CASES.  `probe: True` marks the deterministic probe of a known finding.
"""

ENGINES = {
    "unit": {"pkg": "unit", "toolchain": "default"},
    "sim": {"pkg": "sim", "toolchain": "go1.26"},
    "netw": {"pkg": "netw", "toolchain": "default", "race": True},
    "proc": {"pkg": "proc", "toolchain": "default"},
    "fuzz": {"pkg": "fuzz", "toolchain": "default"},
}

PROPS = {}

PROPS["C11"] = {
    "level": "exploration",
    "rule": ("Scenario = cache size S + get/remove sequence on keys addressed as (shard, index). TestC11AllSizes enumerates every S in 1..300 "
             "plus {1023,1024,1025,2047,2048,4096} (thorough: more) with a sequence overfilling every shard; TestC11Random draws S and "
             "sequences with rapid. Non-trivial = at least one eviction observed AND (S is not a multiple of the observed shard count OR S < 16). "
             "Distinct = by S for the enumeration, by canonical scenario JSON for random cases."),
    "assumptions": [
        "resident keys are counted through the verif hook VerifLen (groupcache lru Len per shard) and removals through the library's OnEvicted callback",
        "keys are produced like server.getKey does (a fresh byte slice per call)",
    ],
    "jobs": [
        {"engine": "unit", "test": "TestC11AllSizes", "rapid": False, "quick": {"shards": 1, "timeout": 300}, "thorough": {"shards": 1, "timeout": 1200}},
        {"engine": "unit", "test": "TestC11Random", "quick": {"shards": 8, "checks": 1500, "timeout": 300}, "thorough": {"shards": 16, "checks": 20000, "timeout": 3000}},
    ],
}
