"""Table of engines, properties and jobs used by ./check.

A job = one test function of an engine's test binary, run as `shards`
processes per tier.  rapid jobs get -rapid.checks/-rapid.seed; plain jobs get
VERIF_CASES.  `probe: True` marks the deterministic probe of a known finding.
"""

ENGINES = {
    "unit": {"pkg": "unit", "toolchain": "default"},
    "sim": {"pkg": "sim", "toolchain": "go1.26"},
    "netw": {"pkg": "netw", "toolchain": "default", "race": True},
    "proc": {"pkg": "proc", "toolchain": "default"},
    "fuzz": {"pkg": "fuzz", "toolchain": "default"},
}

PROPS = {}

PROPS["C11"] = {
    "level": "exploration",
    "rule": ("Scenario = cache size S + get/remove sequence on keys addressed as (shard, index). TestC11AllSizes enumerates every S in 1..300 "
             "plus {1023,1024,1025,2047,2048,4096} (thorough: more) with a sequence overfilling every shard; TestC11Random draws S and "
             "sequences with rapid. Non-trivial = at least one eviction observed AND (S is not a multiple of the observed shard count OR S < 16). "
             "Distinct = by S for the enumeration, by canonical scenario JSON for random cases. TestC11Reload: 2-5 reloads of the cache list (sizes from 1..4096 incl. both sides of 1024, the cache sometimes dropped and re-created) "
             "with up to 20 000 new keys after each: the resident count may never exceed the largest size ever configured for that cache name. "
             "TestC11Sim (engine S, through the server's cache middleware): sizes 1..24, with and without a store (mem / lazy), 6-40 keys with URIs of many lengths spread over 8 shards, 20-160 operations; after every operation "
             "each cache holds exactly the keys the history accounts for (requested and neither dropped nor purged since), never more than S, the index of every shard holds as many keys as its recency list, and every reported removal names a resident key. "
             "Non-trivial there = an eviction happened and some shard was filled to its limit. "
             "TestC11Retained: S in {1..100}, S+40..S+800 distinct keys fetched and stored like the cache middleware does (lifetimes 30 s..1 day, bodies 10..5000 bytes, with or without a store, some fetches uncacheable, some keys purged), a finalizer on every stored response; after the history and repeated garbage collections at most S+4 responses may still be reachable. Non-trivial = more keys than S (always)."),
    "assumptions": [
        "TestC11Retained observes reachability through finalizers: it waits for up to 6 s of repeated runtime.GC and tolerates 4 objects beyond S (stale stack slots); a retention that ends within the run (short timers) is invisible to it",
        "TestC11Sim counts the keys of the recency list (VerifLen) and of the index map (VerifIndexLen, reflection on groupcache's unexported map) of every shard",
        "resident keys are counted through the verif hook VerifLen (groupcache lru Len per shard) and removals through the library's OnEvicted callback",
        "keys are produced like server.getKey does (a fresh byte slice per call)",
    ],
    "jobs": [
        {"engine": "unit", "test": "TestC11AllSizes", "rapid": False, "quick": {"shards": 1, "timeout": 300}, "thorough": {"shards": 1, "timeout": 1200}},
        {"engine": "unit", "test": "TestC11Reload", "quick": {"shards": 4, "checks": 150, "timeout": 300}, "thorough": {"shards": 16, "checks": 3000, "timeout": 3000}},
        {"engine": "unit", "test": "TestC11Retained", "quick": {"shards": 4, "checks": 12, "timeout": 400, "shrinktime": "10s"}, "thorough": {"shards": 16, "checks": 300, "timeout": 3400, "shrinktime": "30s"}},
        {"engine": "unit", "test": "TestC11Random", "quick": {"shards": 8, "checks": 1500, "timeout": 300}, "thorough": {"shards": 16, "checks": 20000, "timeout": 3000}},
        {"engine": "sim", "test": "TestC11Sim", "quick": {"shards": 8, "checks": 250, "timeout": 400, "shrinktime": "15s"}, "thorough": {"shards": 16, "checks": 15000, "timeout": 3400, "shrinktime": "60s"}},
    ],
}

_SIM_ASSUME = [
    "pike's real middleware chain (built by the real server.Start) runs inside a testing/synctest bubble of go1.26.8; virtual clock; in-memory upstream RoundTripper installed through the exported Proxy field of the upstream entry",
    "schedules are explored at the granularity of blocking operations plus the two yield points in httpCache.Get (hook); code inside pike's critical sections is atomic here",
    "a waiter is parked between registering and waiting only while all earlier waiters of the key are parked there too, and such waiters are released together right after the fetch ends (a goroutine blocked on a mutex is not durably blocked in a bubble)",
]


def _sim(test, quick_checks, thorough_checks, qshards=16, tshards=16, timeout_q=400, timeout_t=3400):
    return {"engine": "sim", "test": test,
            "quick": {"shards": qshards, "checks": quick_checks, "timeout": timeout_q, "shrinktime": "15s"},
            "thorough": {"shards": tshards, "checks": thorough_checks, "timeout": timeout_t, "shrinktime": "60s"}}


PROPS["C01"] = {
    "level": "exploration",
    "rule": ("Scenario = 1-3 keys + op list (request with park mask / complete with outcome / advance clock / release parked / purge), drawn by rapid incl. directed "
             "macros (burst, expiry between wake-up and resumption, waiter parked between registering and waiting, several epochs). Non-trivial = at least one "
             "request waited on a fetch AND (a woken waiter was parked across an expiry/refetch/purge, OR a waiter was parked at get.registered when its fetch ended, OR >=2 expiry epochs). "
             "Distinct by canonical scenario JSON. TestC01ColdBurst (real goroutines, no controlled schedule): 100-400 bursts of 2-32 goroutines released by a barrier on a cold key, each doing what the cache middleware does "
             "(get-or-create the entry, Get, the elected fetcher stores a response): exactly one fetcher, one shared entry, N-1 answered from it. evaluations counts bursts."),
    "assumptions": _SIM_ASSUME + ["the get-or-create of the entry in the dispatcher has no yield point; it is exercised statistically by TestC01ColdBurst under the Go scheduler"],
    "jobs": [_sim("TestC01", 1500, 40000),
             {"engine": "unit", "test": "TestC01ColdBurst", "quick": {"shards": 8, "checks": 12, "timeout": 400, "shrinktime": "5s"}, "thorough": {"shards": 16, "checks": 400, "timeout": 3400, "shrinktime": "20s"}}],
}
PROPS["C02"] = {
    "level": "exploration",
    "rule": ("Scenario as C01 with fetch outcomes from {cacheable, uncacheable, 5xx, transport error, upstream body abort (= handler panic), hang until the location's proxy timeout}, "
             "purges and a memory store. Oracle = quiescence invariant after every op + bubble deadlock detector + every request finished after the drain. "
             "Non-trivial = a waiter of a failed/uncacheable fetch existed OR a waiter was parked between registering and waiting when its fetch ended. "
             "TestC02Hammer (real goroutines, cache package): 4-32 goroutines x 2000-20000 lookups on 1-5 keys doing what the cache middleware does per request (get-or-create, Get, Age on a hit, Cacheable or HitForPass on a fetch; lifetime 1 s or 60 s, optional purger and store). Oracle = progress: every goroutine finishes its quota; no lookup at all completing for 20 s is a stall. Non-trivial = hits and fetches both occurred. evaluations counts lookups."),
    "assumptions": _SIM_ASSUME + ["a scenario that does not become quiescent within 40 s of real time (cases take milliseconds) is reported as a lock-involving deadlock"],
    "jobs": [_sim("TestC02", 1500, 40000),
             {"engine": "unit", "test": "TestC02Hammer", "quick": {"shards": 8, "checks": 6, "timeout": 400, "shrinktime": "5s"}, "thorough": {"shards": 16, "checks": 150, "timeout": 3400, "shrinktime": "20s"}}],
}
PROPS["C03"] = {
    "level": "exploration",
    "rule": ("Scenario = method + status + generated upstream header set (Cache-Control grammar: directive subsets, order, letter case, separators, 1-3 header lines, numeric edge values; "
             "Set-Cookie none/one/several/empty-first; Age valid/invalid; Expires/Last-Modified). r1 fetches, r2/r3 repeat. Oracle = reference predicate from the statement "
             "(only-if always; if-direction on canonical inputs) + label truthfulness against the upstream log. Non-trivial = >=2 directives, non-lower-case, multi-line, or Set-Cookie/Age present. "
             "Distinct by (method, header list, status). TestC03Histories: the delivery and label clauses over generated histories (GET/HEAD/POST/DELETE keys, expiry, refetches that turn uncacheable, waiters, passes, stores) judged by the per-key automaton: "
             "a response that does not qualify reaches only the request that fetched it, every non-hit answer has exactly one upstream contact, hits have none. "
             "TestC03Forward (engine N, real sockets): 3-10 requests (POST/PUT/DELETE/PATCH with 0..70 000-byte bodies, GET, HEAD) while the origin, after reading the request, answers normally, resets the connection before any response byte, aborts in the middle of the body or answers 500: every non-GET/HEAD request reaches the origin exactly once whatever the client gets, successful responses not labelled hit involved exactly one contact, and a request the origin never answered is not answered 2xx. Non-trivial = a pass request met an origin fault."),
    "assumptions": _SIM_ASSUME[:1] + ["spellings of max-age/s-maxage other than lower case, malformed or overflowing numbers, invalid Age values and empty-only Set-Cookie lines are treated as left open by the statement (either outcome accepted) unless no reading yields a positive lifetime"],
    "jobs": [_sim("TestC03", 4000, 150000), _sim("TestC03Histories", 800, 25000),
             {"engine": "netw", "test": "TestC03Forward", "quick": {"shards": 4, "checks": 60, "timeout": 400, "shrinktime": "10s"}, "thorough": {"shards": 16, "checks": 3000, "timeout": 3400, "shrinktime": "60s"}}],
}
PROPS["C04"] = {
    "level": "exploration",
    "rule": ("Scenario = one key, lifetimes T in {1..10,60,3600,31536000}, upstream Age absent/0/0..T+2, timed histories with clock advances concentrated on k*T, T+-1s and sub-second offsets, "
             "several refetch epochs. Oracle = interval automaton (served from cache iff elapsed < L, never at elapsed >= L+1, boundary second either; Age within 1s and <= T; version must be the latest fetch). "
             "Non-trivial = a request inside the boundary second or an expired refetch, and at least one hit. "
             "TestC04SlowWrite (engine N, real clock): lifetime 1-2 s, a store whose write takes 1.7-3 s longer than the lifetime, 1-3 requests arriving 0.1-1.5 s after the first. Oracle: a response served from cache (identified by the X-Serial of the upstream exchange it came from) is never answered T+1.5 s or more after that exchange, and never with Age > T. Requests that arrived before the exchange they were served from (waiters) are the open finding waiter-answer-delayed-by-store-write and excluded, counted. "
             "TestC04Location (engine N, real clock): a location adds 's-maxage=T' (T 1-2 s) to an upstream answer with max-age 30..86400; a request T+1.3..T+2.5 s after the first was answered must reach the upstream."),
    "assumptions": _SIM_ASSUME,
    "jobs": [_sim("TestC04", 2000, 60000), _sim("TestC04Store", 400, 15000, qshards=8),
             {"engine": "netw", "test": "TestC04SlowWrite", "quick": {"shards": 6, "checks": 2, "timeout": 400, "shrinktime": "15s"}, "thorough": {"shards": 8, "checks": 30, "timeout": 3400, "shrinktime": "60s"}},
             {"engine": "netw", "test": "TestC04Location", "quick": {"shards": 6, "checks": 2, "timeout": 400, "shrinktime": "15s"}, "thorough": {"shards": 8, "checks": 25, "timeout": 3400, "shrinktime": "60s"}},
             {"engine": "netw", "test": "TestC04ProbeWaiterSlowWrite", "rapid": False, "probe": True, "quick": {"shards": 1, "timeout": 120}, "thorough": {"shards": 1, "timeout": 120}}],
}
PROPS["C06"] = {
    "level": "exploration",
    "rule": ("Scenario = 4-40 adversarial keys (paths differing by one byte/trailing slash/case, query order, same URI on several hosts, GET/HEAD twins) on caches of size 8/16/24 so that shards collide and evict, "
             "mixed request order, completions, purges. Oracle = every delivered response echoes the client's own (method, host, request-URI) and carries the serial of its own fetch or of the key's stored response. "
             "Non-trivial = at least one eviction and at least one hit or waiter. TestC06Concurrent (real goroutines): 2-12 near-identical keys forced into 1-2 LRU shards of a cache of 16..51200 entries, "
             "4-16 goroutines looking them up for 30-120 ms (get-or-create, Get, store on fetch), optional concurrent purger: every hit must carry the response stored for the key that was asked for. evaluations counts lookups. "
             "TestC06Store (engine P): the kill/restart histories of C08 on real badger stores, judged for C06: the URIs of keys 10-19/20-29/30-39 extend those of keys 1/2/3 (proper prefixes), two keys may be longer than a badger key can be (65 100 shared bytes), a second server with its own cache, directory and upstream answers the same URLs; every response must be the one produced for its own (method, Host, URI) through its own server."),
    "assumptions": _SIM_ASSUME + ["the dispatcher's lookup has no yield point; it is exercised statistically by TestC06Concurrent and by the C20 workload under the race detector"],
    "jobs": [_sim("TestC06", 1000, 30000),
             {"engine": "unit", "test": "TestC06Concurrent", "quick": {"shards": 8, "checks": 20, "timeout": 400, "shrinktime": "5s"}, "thorough": {"shards": 16, "checks": 600, "timeout": 3400, "shrinktime": "20s"}},
             {"engine": "proc", "needs_pike": True, "test": "TestC06Store", "env": {"VERIF_PORT_BASE": "2000", "VERIF_PORT_SPAN": "400"},
              "quick": {"shards": 8, "checks": 2, "timeout": 600, "shrinktime": "45s"}, "thorough": {"shards": 16, "checks": 25, "timeout": 3400, "shrinktime": "120s"}}],
}
PROPS["C07"] = {
    "level": "exploration",
    "rule": ("Scenario = hit-for-pass D in {unset,-5,1,2,5,60,300}s, histories alternating cacheable/uncacheable/failed answers, bursts during the period left pending together, advances around D, D+-1s. "
             "Oracle = during elapsed < D every request has its own upstream request pending at the next quiescent point (never queued, never a hit); at elapsed >= D+1 exactly one probes and the others wait. "
             "Non-trivial = >=2 passes and >=1 probe after the period. "
             "TestC07Burst (engine N, pike's real upstream transport): 1-3 keys made hit-for-pass (or POST requests), then a burst of 40/64/96/130 concurrent requests against an origin that answers each request only once the whole burst is inside its handler (or 10 s have passed): the largest number of requests inside the origin at the same time must equal the burst size. Every case is non-trivial."),
    "assumptions": _SIM_ASSUME + ["TestC07Burst: a burst of up to 130 loopback requests reaches the origin within the 10 s the origin waits for it"],
    "jobs": [_sim("TestC07", 1500, 40000), _sim("TestC07Store", 400, 15000, qshards=8),
             {"engine": "netw", "test": "TestC07Burst", "quick": {"shards": 2, "checks": 6, "timeout": 400, "shrinktime": "10s"}, "thorough": {"shards": 8, "checks": 60, "timeout": 3400, "shrinktime": "30s"}}],
}
PROPS["C10"] = {
    "level": "fault_enumeration",
    "rule": ("Scenario = request histories (waiters, expiry, purge, LRU 8 or 1000) + per-call store fault scripts {not-found, error, truncated record, record with corrupted status, garbage} on get, error on set/delete. "
             "Oracle = the C01/C04 automaton with the store invisible (a bad or missing record is a miss; permissive only where a record may legitimately survive). "
             "Non-trivial = >=1 injected fault actually consumed by a store call, with a waiter or >=3 requests. "
             "TestC10StoreOpen (engine N): the cache is configured with one of pike's real back ends in a state in which it cannot work (badger directory that cannot be created / is a regular file / is locked by another cache under another spelling, redis nobody listens on); 3-8 requests on cacheable and uncacheable keys must all be answered 200 with the upstream's body and memory hits keep working. "
             "TestC10SlowStore (engine N): a store whose calls take 20-80 ms; a hit or hit-for-pass record that left the one-entry memory is looked up by the first of 2-5 staggered concurrent requests: all of them must be answered. "
             "TestC10Admin (engine N): the admin purge histories of TestC18Admin, always on stores whose delete (15 ms) or write (40 ms) is slow, incl. purges while clients keep asking: a slow store call must not make pike answer with what was purged."),
    "assumptions": _SIM_ASSUME + ["store delays are not simulated in the bubble (a goroutine sleeping inside a pike lock would wedge it)",
                                  "records with a corrupted status field or random garbage make the key's model permissive: only completion and response correctness are demanded"],
    "jobs": [_sim("TestC10", 1500, 40000),
             {"engine": "netw", "test": "TestC10SlowStore", "quick": {"shards": 4, "checks": 20, "timeout": 400, "shrinktime": "10s"}, "thorough": {"shards": 8, "checks": 400, "timeout": 3400, "shrinktime": "30s"}},
             {"engine": "netw", "test": "TestC10StoreOpen", "quick": {"shards": 4, "checks": 30, "timeout": 400, "shrinktime": "10s"}, "thorough": {"shards": 8, "checks": 600, "timeout": 3400, "shrinktime": "30s"}},
             {"engine": "netw", "test": "TestC10Admin", "quick": {"shards": 8, "checks": 8, "timeout": 600, "shrinktime": "30s"}, "thorough": {"shards": 8, "checks": 200, "timeout": 3400, "shrinktime": "60s"}}],
}
PROPS["C18"] = {
    "level": "exploration",
    "rule": ("Scenario = 2-4 keys, two servers bound to caches c1/c2 (70%), optional memory store, purges {c1, c2, all, unknown cache, absent key} racing fetches with 0-4 waiters. "
             "Oracle = after a purge returned the next request must reach the upstream (or be answered by a fetch still in flight at purge time), the store holds no record, other caches/keys keep their hits, the purge returns at once. "
             "Non-trivial = purge of a fresh entry followed by a request, or purge during a fetch with a waiter. "
             "TestC18Admin (real sockets): the same purge kinds through the real admin endpoint DELETE /cache?key=&cache= on two servers/caches with keys that need query escaping, "
             "plus purges issued 120 ms into a 1 s upstream fetch with two waiters (must return before the fetch ends; all three requests must complete correctly). "
             "TestC18Store (engine P): the kill/restart histories of C08 (real badger, 8-entry memory, keys 10-39 whose URIs extend those of keys 1-3, admin purges, a directed fill-both / purge-the-shorter / flush-the-memory / ask-again macro in a third of the cases) judged for 'other keys keep their entries': within one instance, a cacheable key that was fetched and delivered is not fetched again while fresh if only other keys were purged in between."),
    "assumptions": _SIM_ASSUME + ["in the real-socket part a purge counts as blocked only if it took more than 800 ms and returned no earlier than the 1 s fetch completed"],
    "jobs": [_sim("TestC18", 1500, 40000),
             {"engine": "proc", "needs_pike": True, "test": "TestC18Store", "env": {"VERIF_PORT_BASE": "2000", "VERIF_PORT_SPAN": "400"},
              "quick": {"shards": 8, "checks": 2, "timeout": 600, "shrinktime": "45s"}, "thorough": {"shards": 16, "checks": 25, "timeout": 3400, "shrinktime": "120s"}},
             {"engine": "netw", "test": "TestC18Admin", "quick": {"shards": 16, "checks": 8, "timeout": 600, "shrinktime": "30s"}, "thorough": {"shards": 16, "checks": 300, "timeout": 3400, "shrinktime": "60s"}}],
}

PROPS["C09"] = {
    "level": "exploration",
    "rule": ("TestC09RoundTrip: structured entries (any state, extreme timestamps, response nil or with compress settings, 0-12 header names multi-valued incl. empty/long/UTF-8 values, status 100-599, "
             "any subset of raw/gzip/br bodies 0..64 KiB, thorough 4 MiB): FromBytes(Bytes(x)) must give equal fields and identical Fill results for 5 Accept-Encoding values, and every strict prefix "
             "(all offsets <= 4 KiB, sampled beyond) must be rejected. TestC09Mutated: bit flips, length-field overwrites with hostile values, rotations and random bytes: no panic, allocation <= 8 MiB + 64*len, "
             "successful decodes are fixed points. Thorough adds the native coverage-guided target FuzzC09FromBytes (same oracle inside the target; executions are added to evaluations). Non-trivial = response with >=2 header names and >=1 non-empty body (round trip) / input >= 12 bytes (mutated). Distinct by canonical scenario JSON. "
             "TestC09FilterLimit: content-type filters of ASCII and multi-byte alternatives with lengths around 1000 bytes and around 1000 characters; every filter the configuration validation accepts for a server must survive the round trip of an entry carrying it (the decoder refuses filters longer than the validation allows). "
             "TestC09StoreRestore: hit / hit-for-pass entries (same generator) with createdAt = now - {0 s..10 years} and expiredAt = now + {1 min..2^40 s, incl. 365 days +- 1 s, 365.25 days, 10 years}, encoded, written to a store and found there by a new entry of the key (NewHTTPStoreCache + Get): same state, same Age (+-2 s), identical Fill results for 4 Accept-Encoding values. Non-trivial = more than a year left or a non-zero age."),
    "assumptions": ["entries are built through the hook VerifNewEntry; stored gzip/br variants are valid streams (Fill decodes them)",
                    "header values that are not valid UTF-8 are excluded by construction while the finding header-value-invalid-utf8 is open (counted under excluded_known)"],
    "jobs": [
        {"engine": "unit", "test": "TestC09RoundTrip", "quick": {"shards": 8, "checks": 1500, "timeout": 400}, "thorough": {"shards": 16, "checks": 40000, "timeout": 3400}},
        {"engine": "unit", "test": "TestC09Mutated", "quick": {"shards": 8, "checks": 3000, "timeout": 400}, "thorough": {"shards": 16, "checks": 100000, "timeout": 3400}},
        {"engine": "unit", "test": "TestC09FilterLimit", "quick": {"shards": 2, "checks": 300, "timeout": 300}, "thorough": {"shards": 8, "checks": 3000, "timeout": 1200}},
        {"engine": "fuzz", "test": "FuzzC09FromBytes", "rapid": False, "fuzz": True, "solo": True, "thorough": {"shards": 1, "fuzztime": "180s", "timeout": 600}},
        {"engine": "unit", "test": "TestC09StoreRestore", "quick": {"shards": 4, "checks": 400, "timeout": 300, "shrinktime": "10s"}, "thorough": {"shards": 16, "checks": 20000, "timeout": 3000, "shrinktime": "30s"}},
        {"engine": "unit", "test": "TestC09ProbeInvalidUTF8", "rapid": False, "probe": True, "quick": {"shards": 1, "timeout": 60}, "thorough": {"shards": 1, "timeout": 60}},
    ],
}
PROPS["C12"] = {
    "level": "exploration",
    "rule": ("Inputs = byte strings in size classes {0,1,2-64,65-4096,4K-64K,64K-256K (thorough 1 MiB)} x shapes {random, single-byte run, short period, JSON-like text, runs+noise} x levels -1..12. "
             "TestC12Encode: pike's Gzip/Brotli output must be restored by the stdlib gzip reader (clean trailer) / reference brotli reader and by pike's own decoders and Decompress. "
             "TestC12Decode: streams from reference encoders (stdlib gzip, brotli, snappy, zstd, pierrec lz4 fast+HC, an independent hand-written lz4 block encoder and literal-only blocks; ratios up to ~250x) must be restored exactly. "
             "TestC12Malformed(+Zstd): truncations, bit flips, rotations, hostile length prefixes, random bytes: no panic, no call above 300 s, and a valid stream of the same format decoded right afterwards is restored. Thorough adds the native coverage-guided target FuzzC12Decoders (gunzip, br, lz4, snappy; no panic, deterministic result). Non-trivial = size >= 65 or ratio > 10 or level outside 1..9 (encode/decode); >= 4 bytes (malformed)."),
    "assumptions": ["snappy/zstd inputs that announce more than 16 MiB of decoded data are skipped (those libraries allocate the announced size up front; counted under excluded_known)",
                    "the zstd malformed-stream job runs with GOMAXPROCS=1 because pike's ZSTDDecode leaks the decoder's goroutines per call (observation outside the listed properties)"],
    "jobs": [
        {"engine": "unit", "test": "TestC12Encode", "quick": {"shards": 8, "checks": 300, "timeout": 500}, "thorough": {"shards": 16, "checks": 6000, "timeout": 3400}},
        {"engine": "unit", "test": "TestC12Decode", "quick": {"shards": 8, "checks": 400, "timeout": 500}, "thorough": {"shards": 16, "checks": 6000, "timeout": 3400}},
        {"engine": "unit", "test": "TestC12Malformed", "quick": {"shards": 8, "checks": 3000, "timeout": 500}, "thorough": {"shards": 16, "checks": 100000, "timeout": 3400}},
        {"engine": "fuzz", "test": "FuzzC12Decoders", "rapid": False, "fuzz": True, "solo": True, "thorough": {"shards": 1, "fuzztime": "240s", "timeout": 900}},
        {"engine": "unit", "test": "TestC12MalformedZstd", "env": {"GOMAXPROCS": "1"}, "quick": {"shards": 2, "checks": 1000, "timeout": 500}, "thorough": {"shards": 8, "checks": 25000, "timeout": 3400}},
    ],
}

PROPS["C13"] = {
    "level": "exploration",
    "rule": ("Exhaustive product, every cell visited in every run: 11 Accept-Encoding values (none, gzip, br, both orders, deflate, mixed, identity, zstd, no-space list) x 7 stored-variant subsets + the cacheable path (Cacheable() on a raw body) x "
             "min-length {0,1,100,1024} x sizes {0, min-1, min, min+1, 4*min+57} x 8 content-type/filter combinations; 2 (quick) or 40 (thorough) PRNG bodies per cell. Oracle = reference table written from the statement "
             "(stored br, then stored gzip, verbatim; too small or filtered -> identity; br over gzip; neither accepted -> identity; sizes equal to or straddling the threshold accept either), best-compression pre-compression checked byte-for-byte against gzip level 9. "
             "Non-trivial = every cell except (no Accept-Encoding, raw only, not cacheable); distinct by cell x body seed."),
    "assumptions": ["Fill is driven through the exported HTTPResponse API with an elton context",
                    "TestC13Server (real sockets): a server with compressMinLength unset (1 KiB default) / 100 / 2kb (= 2000 bytes, SI units) and filter unset / custom, created fresh (NewServer path) or updated in place (Update path), answers bodies around those thresholds for 5 content types, 6 Accept-Encoding values, cacheable or not, upstream identity or gzip as the same reference table says"],
    "exhaustive_part": "all cells of the decision table are enumerated in every run; bodies per cell are sampled",
    "jobs": [
        {"engine": "netw", "test": "TestC13Server", "quick": {"shards": 8, "checks": 250, "timeout": 500}, "thorough": {"shards": 16, "checks": 8000, "timeout": 3400}},
        {"engine": "unit", "test": "TestC13Table", "rapid": False, "quick": {"shards": 16, "cases": 2, "timeout": 500}, "thorough": {"shards": 16, "cases": 40, "timeout": 3400}},
    ],
}
PROPS["C14"] = {
    "level": "exploration",
    "rule": ("TestC14Exhaustive: every list of 1..3 locations over hosts {a.test,b.test} x prefixes {/a,/a/b,/b} (32 shapes -> 33 824 configs) x every server name list x 3 request hosts x 6 request URIs "
             "(thorough: + every list of 4 locations over 16 shapes); TestC14Random: up to 8 locations, duplicate names, 5 hosts, 7 prefixes, unknown names. Oracle = reference matcher (result matches and is of the best class present; nil iff nothing matches; unlisted never used). "
             "Non-trivial = >=2 matching locations of >=2 classes, or nothing listed matches while an unlisted location would. Exhaustive lookups are distinct by construction and counted by the test. "
             "TestC14Config: 1-6 location configuration entries (hosts in any case, prefixes including /) loaded with location.Reset and looked up through the package registry as the proxy does; same reference."),
    "assumptions": ["the exported NewLocations(...).Get is the lookup the proxy uses (location.Get on the default list)",
                    "TestC14Server (real sockets): 1-5 locations, each adding a request header naming itself, two servers listing subsets of them, 3-10 requests: the harness upstream's log tells which location handled a request (must be listed, matching, of the best class); with no match the client gets 5xx and the upstream sees nothing"],
    "exhaustive_part": "all configurations of up to 3 locations over the stated universe",
    "jobs": [
        {"engine": "netw", "test": "TestC14Server", "quick": {"shards": 8, "checks": 150, "timeout": 500}, "thorough": {"shards": 16, "checks": 6000, "timeout": 3400}},
        {"engine": "unit", "test": "TestC14Exhaustive", "rapid": False, "quick": {"shards": 1, "timeout": 500}, "thorough": {"shards": 1, "timeout": 3400}},
        {"engine": "unit", "test": "TestC14Random", "quick": {"shards": 4, "checks": 20000, "timeout": 500}, "thorough": {"shards": 16, "checks": 300000, "timeout": 3400}},
        {"engine": "unit", "test": "TestC14Config", "quick": {"shards": 4, "checks": 5000, "timeout": 500}, "thorough": {"shards": 16, "checks": 100000, "timeout": 3400}},
    ],
}
PROPS["C17"] = {
    "level": "exploration",
    "rule": ("Structured configurations (0-3 compress profiles, 1-3 caches/upstreams/locations, 0-3 servers; names, remarks and values from a pool of YAML-sensitive strings) valid by construction, one third mutated by exactly one of 23 defect kinds "
             "(dangling references, over-long names, bad duration/size/regexp/policy/addr/prefix/key:value/hostname, non-positive size, empty lists). Oracle: accepted => reference closure check passes; injected defect => rejected; Write agrees with Validate; Read(Write(c)) == c up to nil/empty and display-only fields. "
             "Non-trivial = accepted with >=1 server, location, upstream and a name/value needing YAML quoting, or rejected with exactly one defect. TestC17Apply: generated accepted configurations (awkward names, 1-3 servers/caches/upstreams, 1-4 locations) are applied in-process with the call sequence of main.update and every server is probed once per listed location: no answer may be pike's cache-dispatcher/location/upstream 'not found' error."),
    "assumptions": ["the file client (InitDefaultClient on a temp file) is the persistence used; etcd is not available offline"],
    "jobs": [
        {"engine": "unit", "test": "TestC17", "quick": {"shards": 8, "checks": 2500, "timeout": 500}, "thorough": {"shards": 16, "checks": 60000, "timeout": 3400}},
        {"engine": "netw", "test": "TestC17Apply", "quick": {"shards": 8, "checks": 150, "timeout": 500}, "thorough": {"shards": 16, "checks": 5000, "timeout": 3400}},
        {"engine": "unit", "test": "TestC17ProbeLevelsKey", "rapid": False, "probe": True, "quick": {"shards": 1, "timeout": 60}, "thorough": {"shards": 1, "timeout": 60}},
    ],
}

_NETW_ASSUME = [
    "pike servers are started in-process through the exported Reset/Start functions (the call sequence of main.update) on loopback ports; harness upstreams are net/http servers with scripted answers and a request log",
    "real sockets and real time: schedules are not controlled; oracles are history-based and hold under any timing",
]
PROPS["C05"] = {
    "level": "exploration",
    "rule": ("Scenario = body (shape random/text/run; size 0,1,2,50, threshold-1/threshold/threshold+1, 2x, 3000, 64 KiB, thorough 300 KB/1 MiB) x content type x status {200,201,203,404,410,500} x upstream encoding {identity,gzip,br,lz4,zst,snz} x "
             "four client Accept-Encoding values from a pool of 17 plain lists (absent, empty, gzip, br, both orders, deflate, identity, zstd, lz4/snz, x-gzip, compress, pack200-gzip, ...) x extra end-to-end headers (multi-valued, UTF-8, empty, 3 KB) x "
             "compress levels, min-length {unset,1,100,1kb,1mb}, filter; optional store. Each case drives a key through fetch + concurrent waiter, two hits, (store) a fresh dispatcher restoring from the store, and an uncacheable twin through fetch + two passes. "
             "Oracle = client-side decode equals the upstream's original bytes, Content-Encoding acceptable, Content-Length = bytes received, status and every end-to-end header line preserved. "
             "Non-trivial = upstream encoding != identity, or a client list != {gzip}, or size around the threshold or >= 64 KiB, or a single-byte run (ratio > 10). Distinct by the scenario tuple. "
             "TestC05CutBody: the first 1-2 upstream answers (2 KB..220 KB, identity/gzip/br, cacheable or not) break off in the middle of the body while 0-3 further requests are in flight, then 2-5 follow-ups with different Accept-Encoding: a request may fail visibly, but no complete 200 response may carry anything else than the full body (fetching request, waiters, later hits), and the final request gets the full body. Non-trivial = the upstream was contacted again after its cut answers and some request got the complete body."),
    "assumptions": _NETW_ASSUME + ["an empty lz4 body is sent as an empty payload (the block format has no encoding of empty input)", "x-gzip is accepted as an alias of gzip"],
    "jobs": [
        {"engine": "netw", "test": "TestC05", "quick": {"shards": 16, "checks": 120, "timeout": 600, "shrinktime": "30s"}, "thorough": {"shards": 16, "checks": 4000, "timeout": 3400, "shrinktime": "120s"}},
        {"engine": "netw", "test": "TestC05CutBody", "quick": {"shards": 4, "checks": 25, "timeout": 600, "shrinktime": "20s"}, "thorough": {"shards": 16, "checks": 600, "timeout": 3400, "shrinktime": "60s"}},
    ],
}

PROPS["C15"] = {
    "level": "exploration",
    "rule": ("Scenario = location (rewrite none | /api/*:/$1 | /rest/*/user/*:/$1/$2; 0-3 added request headers / response headers / query parameters, some colliding with client names), upstream Accept-Encoding set or not, "
             "2-7 requests over a cacheable and an uncacheable key: methods GET/HEAD/POST/PUT/PATCH/DELETE/OPTIONS, bodies 0-64 KiB, 0-5 custom headers (multi-valued), queries (order, repeats, encoded bytes, empty values), "
             "conditional (If-None-Match match/miss/*, If-Modified-Since before/after) and Range (prefix/suffix/open) headers on cold, hit and hit-for-pass keys; a final plain GET by another client on every key. "
             "Oracle = upstream log vs client request (method, body, reference rewrite, query multiset, headers, Accept-Encoding, conditionals withheld only on a fetching request), client gets 304 when its validator matches, "
             "configured response headers added, and no 304/206 is ever replayed to the final plain GET. Non-trivial = >=2 of {rewrite, added header, added query, accept-encoding override, conditional/Range}."),
    "assumptions": _NETW_ASSUME + ["the harness upstream answers validators and ranges correctly (http.ServeContent)", "X-Forwarded-For and hop-by-hop header handling of the reverse proxy are not counted as changes"],
    "jobs": [{"engine": "netw", "test": "TestC15", "quick": {"shards": 16, "checks": 150, "timeout": 600, "shrinktime": "30s"}, "thorough": {"shards": 16, "checks": 6000, "timeout": 3400, "shrinktime": "120s"}}],
}
PROPS["C19"] = {
    "level": "fault_enumeration",
    "rule": ("Scenario = 1-4 harness upstream servers (each primary or backup, initially up or down), policy {unset, roundRobin, random, first, leastconn}, TCP or HTTP health check, 3-10 up/down flips. After each flip the harness calls the exported "
             "DoHealthCheck() (the function the periodic checker runs) and sends 3n+1 sequential uncacheable requests. Oracle per settle: only up servers answer, backups only when no primary is up, roundRobin counts differ by <= 1, nobody up -> 5xx within 10 s and nothing logged upstream, traffic flows again after recovery. "
             "TestC19Unforced uses no forced check (4 variants, one per process): all servers down then back (TCP / HTTP check), and - after applying the same configuration a second time, as a reload that leaves the upstream unchanged - the first server fails and the periodic 5 s checker alone must move the traffic to the remaining server (primary or backup), keep it error-free once settled, and bring the first server back when it recovers (30 s allowed each). Non-trivial = a backup-only phase AND an all-down phase AND a recovery after it. "
             "TestC19Alarm (engine P, pike's own periodic checker): the real binary with --alarm pointing at a receiver that never answers / answers after 3 s / answers / refuses (or no alarm); one server starts failing its HTTP health check (listener open), recovers, then the other one fails: within 20 s (four check periods) each time the traffic must have left the failing server and returned to the recovered one."),
    "assumptions": _NETW_ASSUME + ["the settle time between events is replaced by a forced DoHealthCheck call; the unforced variant allows 30 s for recovery"],
    "jobs": [
        {"engine": "netw", "test": "TestC19", "quick": {"shards": 16, "checks": 25, "timeout": 600, "shrinktime": "20s"}, "thorough": {"shards": 16, "checks": 1500, "timeout": 3400, "shrinktime": "60s"}},
        {"engine": "netw", "test": "TestC19Unforced", "rapid": False, "quick": {"shards": 4, "timeout": 300}, "thorough": {"shards": 4, "timeout": 600}},
        {"engine": "proc", "needs_pike": True, "test": "TestC19Alarm", "env": {"VERIF_PORT_BASE": "9000", "VERIF_PORT_SPAN": "60"},
         "quick": {"shards": 4, "checks": 1, "timeout": 600, "shrinktime": "1s"}, "thorough": {"shards": 8, "checks": 6, "timeout": 3400, "shrinktime": "1s"}},
    ],
}
PROPS["C20"] = {
    "level": "exploration",
    "rule": ("Workload phase = 30-120 free-running client goroutines for 2 s (thorough 5 s) on 4-60 keys (hot/cold mix, cacheable with lifetime 1 s / uncacheable with hit-for-pass 1 s, cache of 64 entries), Accept-Encoding and If-None-Match mixes, POSTs, "
             "purges every 0/5/20/100 ms, reloads (the main.update call sequence alternating compress levels, thresholds, filters, location headers) every 0/50/150/400 ms, optional burst->silence past expiry->burst pattern. Built with -race. "
             "Oracle = zero race-detector reports with a pike/elton frame, every response 200 (or 304 for a matching validator) and byte-equal to what the upstream produces for its own key, acceptable Content-Encoding. "
             "evaluations = requests sent; non-trivial phase = hits, fetches and passes all occurred and purges or reloads ran. Statistical: it can show races, not their absence. "
             "TestC20Cache (entry level, -race): 10-40 bursts of 2-12 goroutines coalescing behind one fetch on the cache package itself; the fetch stores a generated response (200 B..220 KB, compressible or not, upstream identity/gzip/br, min length 0/1 KB/4 KB); "
             "every woken request immediately reads the response it was handed and fills a context as the responder does: the body decodes to what was stored, and the response object is the published one and unchanged when a later hit looks at it (immutable after publication). Non-trivial = some request was answered from the fetch of another; evaluations = bursts."),
    "assumptions": _NETW_ASSUME + ["Go race detector (halt_on_error=0, log parsed by the test)", "schedules are whatever the runtime produces under load; nothing is replayable except the workload parameters"],
    "jobs": [{"engine": "netw", "race": True, "test": "TestC20", "solo": True, "env": {"GORACE": "log_path={cwd}/race halt_on_error=0", "VERIF_RACE_LOG": "{cwd}/race"},
              "quick": {"shards": 1, "checks": 5, "timeout": 600, "shrinktime": "1s"}, "thorough": {"shards": 1, "checks": 60, "timeout": 3400, "shrinktime": "1s"}},
             {"engine": "netw", "race": True, "test": "TestC20Cache", "env": {"GORACE": "log_path={cwd}/race halt_on_error=0", "VERIF_RACE_LOG": "{cwd}/race"},
              "quick": {"shards": 4, "checks": 12, "timeout": 600, "shrinktime": "5s"}, "thorough": {"shards": 8, "checks": 300, "timeout": 3400, "shrinktime": "20s"}}],
}

_PROC_ASSUME = [
    "the real pike binary is built by the driver from /repo's current tree (go build -tags verif) and run with --config <file> --admin <addr>, GO_ENV=dev",
    "real processes, sockets and time: oracles are differential or interval based and hold under any timing",
]
PROPS["C16"] = {
    "level": "exploration",
    "rule": ("Scenario = sequence of 2-6 valid configurations (each a mutation of the previous one by 1-3 edits, or a fresh draw): servers on 3 address slots (locations, cache binding, compress profile, min-length unset/100/1kb/4kb, filter unset/set), "
             "locations (hosts, prefixes, rewrite, added request/response headers and query), upstreams (server, policy, accept-encoding), compress profiles incl. an override of bestCompression and its removal, caches added/removed. "
             "The live process receives each configuration by one in-place pwrite of constant length and acknowledges with 'update config success'; a second process is started fresh with the final configuration. "
             "Oracle = a battery of ~150 probes per server (routing for 3 hosts x 3 paths with upstream echo of path/query/added headers/Accept-Encoding, compression for 9 sizes x 3 types x 2 encodings with body hash, cacheable bodies = best-compression fingerprint, cache sharing) must give identical observations in both processes; "
             "an entry cached before the sequence in a surviving cache is still a hit; removed servers stop listening after the 10 s grace (checked once per process in quick). evaluations = probes compared. Non-trivial = a server modified in place AND an optional field going from set to unset."),
    "assumptions": _PROC_ASSUME + ["parameters of a surviving cache, log format and admin settings are never changed (documented restart-only)",
                                   "servers that are removed and added again later in the same sequence are excluded while the finding server-readded-within-close-grace is open (counted)"],
    "jobs": [
        {"engine": "proc", "needs_pike": True, "test": "TestC16", "quick": {"shards": 16, "checks": 4, "timeout": 600, "shrinktime": "40s"}, "thorough": {"shards": 16, "checks": 120, "timeout": 3400, "shrinktime": "120s"}},
        {"engine": "proc", "needs_pike": True, "test": "TestC16ProbeReadded", "rapid": False, "probe": True, "env": {"VERIF_PORT_BASE": "28000", "VERIF_PORT_SPAN": "200"}, "quick": {"shards": 1, "timeout": 120}, "thorough": {"shards": 1, "timeout": 120}},
    ],
}

_C08_SLOW = {"engine": "netw", "test": "TestC08SlowReload", "quick": {"shards": 4, "checks": 10, "timeout": 400, "shrinktime": "10s"}, "thorough": {"shards": 8, "checks": 200, "timeout": 3400, "shrinktime": "30s"}}
PROPS["C08"] = {
    "level": "fault_enumeration",
    "rule": ("TestC08 (real binary, badger store in a temp dir, LRU of 8 entries, 20-40 keys with lifetimes {uncacheable,2,3,4,6,8,30}s, bodies 10/200/3000 bytes, plain or gzip clients): op sequences of single GETs, concurrent bursts over many keys (evict/reload), "
             "purges through the admin API, sleeps up to 3 s, and 1-2 kills: SIGKILL at an op boundary, SIGKILL 0-50 ms into a concurrent burst, SIGTERM (thorough); each followed by a restart on the same directory, then two more sweeps over all keys. "
             "History oracle: a response that did not reach the upstream must be labelled hit, carry the serial (stored header) of a real fetch of the same key, an unaltered body, start less than T+1 s after the latest moment the entry can have been created "
             "(min(fetching client's completion, kill of that instance)), an Age within the measured bounds (continuing across restarts), never for uncacheable keys, never from a fetch completed before a purge; pike must serve within 40 s after every restart. evaluations = client responses judged. "
             "TestC08Sim (bubble, memory store honouring TTL on the virtual clock, LRU 8/16, 10-30 keys forced into 4 shards): evict/reload histories at exact expiry boundaries against the automaton (reload allowed only unchanged, within the original lifetime, Age continuing). "
             "TestC08SlowReload (engine N): the histories of TestC10SlowStore judged for C08 -- a persisted hit or hit-for-pass record that left the one-entry memory is asked for by 2-5 staggered concurrent requests while every store call takes 20-80 ms: each request gets the response (or a refetched one), never an error. "
             "Non-trivial = a hit served from a fetch made by an earlier (killed) instance AND a refetch after expiry (TestC08) / a reload hit (TestC08Sim)."),
    "assumptions": _PROC_ASSUME + _SIM_ASSUME[:1] + ["kill points are sampled in real time (op boundaries and random offsets into bursts), not enumerated at instruction granularity; an OS crash (loss of the page cache) is out of reach"],
    "jobs": [
        {"engine": "proc", "needs_pike": True, "test": "TestC08", "env": {"VERIF_PORT_BASE": "2000", "VERIF_PORT_SPAN": "400"},
         "quick": {"shards": 16, "checks": 2, "timeout": 600, "shrinktime": "45s"}, "thorough": {"shards": 16, "checks": 40, "timeout": 3400, "shrinktime": "180s"}},
        _sim("TestC08Sim", 600, 20000),
        _C08_SLOW,
    ],
}
