#!/usr/bin/env python3
"""Writes MANIFEST.json from checks_table.py + manifest_meta.py (kept in sync by construction)."""
import json, os, sys
ROOT = os.path.dirname(os.path.abspath(__file__))
sys.path.insert(0, ROOT)
from checks_table import PROPS, ENGINES
from manifest_meta import META, NOT_APPLICABLE, HOOK_COMMITS, NOTES

checks = []
for pid in sorted(PROPS):
    m = META[pid]
    checks.append({
        "property_id": pid,
        "quick_cmd": "./check %s quick" % pid,
        "thorough_cmd": "./check %s thorough" % pid,
        "evidence_file": "/verif/evidence/%s.json" % pid,
        "replay_cmd_template": "./check replay {path}",
        "engine": ",".join(sorted({j["engine"] for j in PROPS[pid]["jobs"]})),
        "level_claimed": {"category": PROPS[pid]["level"], "text": m["text"], "design_ref": m["design_ref"]},
        "level_note": m["note"],
        "technique": m["technique"],
    })
manifest = {
    "version": 1,
    "setup_cmd": "./check setup",
    "hooks": {
        "guard": "verif",
        "enable": "go build/test -tags verif (the harness module /verif/harness replaces github.com/vicanso/pike => /repo and is compiled with -tags verif)",
        "baseline_off_cmd": "cd /repo && GOFLAGS=-mod=mod GOPROXY=off go test -vet=off -count=1 -timeout 25m ./...",
        "source_commits": HOOK_COMMITS,
        "add_only": True,
    },
    "engines": [
        {"name": n, "path": "/verif/harness/" + e["pkg"], "serves_properties": sorted(p for p in PROPS if any(j["engine"] == n for j in PROPS[p]["jobs"])),
         "kind_free_text": e.get("kind", "")} for n, e in ENGINES.items()
    ],
    "checks": checks,
    "not_applicable": [{"property_id": p, "reason": r} for p, r in sorted(NOT_APPLICABLE.items()) if p not in PROPS],
    "notes": NOTES,
}
json.dump(manifest, open(os.path.join(ROOT, "MANIFEST.json"), "w"), indent=1)
print("MANIFEST.json written: %d checks, %d not_applicable" % (len(checks), len(manifest["not_applicable"])))
