HOOK_COMMITS = ["e850d8f"]
NOTES = ("Driver: ./check <ID> <quick|thorough>; ./check replay <path>; ./check setup. Technique family: property-based testing "
         "(pgregory.net/rapid v1.3.0) and fuzzing; see DESIGN.md. known_findings.json lists fixed/open findings.")
_PENDING = "check not built yet in this revision (work in progress; see DESIGN.md section 8 build order)"
NOT_APPLICABLE = {"C%02d" % i: _PENDING for i in range(1, 21)}
META = {}
META["C11"] = {
    "text": ("Generated search: every size 1..300 plus edge sizes is enumerated with a sequence overfilling every shard, and rapid draws sizes and "
             "get/remove sequences; after every operation the resident count (hook VerifLen) is compared with S and with an LRU model fed by the "
             "observed evictions (identity of returned entries, LRU victim, one eviction per insertion, shard locality). Exploration, not proof: "
             "sizes above 4096 and sequences beyond the generated lengths are sampled only."),
    "design_ref": "DESIGN.md section 5 C11",
    "note": "trusts the hook VerifLen/VerifOnEvicted (thin wrappers over groupcache lru Len/OnEvicted) and MemHash for shard attribution",
    "technique": "property-based testing: model-based stateful test (rapid) + exhaustive enumeration of sizes, LRU reference model",
}

_SIMNOTE = "trusts go1.26.8 testing/synctest (fake clock, quiescence), the hooks (yield points, handler accessor, store registry) and the reference automaton written from the property statements"
META["C01"] = {"text": "Schedule/clock exploration: thousands of generated interleavings of requests, completions, expiry, parked waiters and purges are run through pike's real middleware chain in a synctest bubble and checked step by step against a per-key reference automaton (one in-flight fetch, waiters answered from it, one upstream request per lifetime). Exploration only: interleavings inside critical sections are not enumerated.", "design_ref": "DESIGN.md section 5 C01, appendix A", "note": _SIMNOTE, "technique": "property-based testing: model-based stateful schedule exploration (rapid) in a deterministic simulation (synctest), reference automaton"}
META["C02"] = {"text": "Same engine with fault outcomes (error, timeout, body abort = panic, uncacheable): after every op no waiter of an ended fetch may remain blocked, the bubble's deadlock detector catches lost wake-ups exactly, every request must finish after the drain.", "design_ref": "DESIGN.md section 5 C02", "note": _SIMNOTE, "technique": "property-based testing: generated schedules x fault sequences, quiescence invariant + deadlock detection"}
META["C03"] = {"text": "Generated header language against a reference cacheability predicate; the second identical request tells whether the response was stored; the upstream log tells whether labels are truthful.", "design_ref": "DESIGN.md section 5 C03", "note": _SIMNOTE, "technique": "property-based testing: grammar-based input generation, reference predicate (differential)"}
META["C04"] = {"text": "Timed histories on a virtual clock with millisecond control around every expiry boundary, checked against an interval automaton with one-second tolerance.", "design_ref": "DESIGN.md section 5 C04", "note": _SIMNOTE, "technique": "property-based testing: generated timed histories on a virtual clock, interval reference model"}
META["C06"] = {"text": "Adversarial key sets on tiny caches (forced shard collisions and evictions) with self-identifying upstream bodies: any cross-key delivery is visible in the body.", "design_ref": "DESIGN.md section 5 C06", "note": _SIMNOTE, "technique": "property-based testing: adversarial key generation, self-identifying responses"}
META["C07"] = {"text": "Histories around the hit-for-pass period with bursts left pending together; automaton with one-second tolerance.", "design_ref": "DESIGN.md section 5 C07", "note": _SIMNOTE, "technique": "property-based testing: model-based timed histories (rapid + synctest)"}
META["C10"] = {"text": "Per-call store fault scripts (errors, missing, truncated/garbled records) injected under generated histories; the store must be invisible to clients.", "design_ref": "DESIGN.md section 5 C10", "note": _SIMNOTE + "; fault store registered through the hook and reached via the real store.NewStore", "technique": "property-based testing with fault injection: generated fault sequences, reference automaton"}
META["C18"] = {"text": "Histories of requests and purges (named/unnamed/absent) racing fetches on two caches with a store, checked against the automaton and by inspecting the store.", "design_ref": "DESIGN.md section 5 C18", "note": _SIMNOTE, "technique": "property-based testing: model-based histories (rapid + synctest), store inspection"}
HOOK_COMMITS[:] = ["e850d8f", "dec0189", "5d88526", "13c1fe9"]
META["C09"] = {"text": "Structured round trip with behavioural equality (Fill for five Accept-Encoding values), truncation at every offset, and mutation-based robustness (panic, allocation bound, fixed point).", "design_ref": "DESIGN.md section 5 C09", "note": "trusts the hook VerifNewEntry/VerifEntryFields and runtime.MemStats.TotalAlloc as allocation measure (single goroutine)", "technique": "property-based testing: round-trip and metamorphic (fixed point) laws, structured + mutation generators"}
META["C12"] = {"text": "Inverse laws against reference codecs for all five formats, all levels -1..12, sizes to 1 MiB and ratios to ~250x; mutated streams for robustness.", "design_ref": "DESIGN.md section 5 C12", "note": "reference codecs: Go stdlib gzip, andybalholm/brotli, golang/snappy, klauspost zstd, pierrec lz4 plus an independent lz4 block encoder written in the harness", "technique": "property-based testing: round-trip / differential against reference codecs, mutation fuzzing (rapid)"}
META["C13"] = {"text": "The decision table is finite: all cells are enumerated in every run and compared with an independent reference table; random bodies multiply each cell.", "design_ref": "DESIGN.md section 5 C13", "note": "reference codecs decode what Fill returns; gzip level 9 of the Go stdlib is the fingerprint of the best-compression profile", "technique": "property-based testing: exhaustive table enumeration with generated bodies, reference table"}
META["C14"] = {"text": "Small-scope exhaustive enumeration (all configs of up to 3-4 locations) plus random larger configs against a reference matcher.", "design_ref": "DESIGN.md section 5 C14", "note": "reference matcher written from the statement", "technique": "property-based testing: small-scope exhaustive enumeration + random generation, reference implementation"}
META["C17"] = {"text": "Generated valid configurations and single-defect mutants against a reference closure check; save/read round trip through the real file client.", "design_ref": "DESIGN.md section 5 C17", "note": "reference closure check written from docs/config.md and the statement; yaml.v2 as shipped", "technique": "property-based testing: structured generation + mutation, reference validator, round trip"}
_NETNOTE = "trusts the harness upstream/client (Go net/http), the reference codecs and the exported Reset/Start call sequence being the one main.update performs"
META["C05"] = {"text": "Generated bodies x encodings x Accept-Encoding x thresholds through real loopback sockets: every path (fetch, waiter, hit, restore from store, pass) must deliver the decoded body byte-identically with acceptable Content-Encoding and correct Content-Length.", "design_ref": "DESIGN.md section 5 C05", "note": _NETNOTE, "technique": "property-based testing: generated inputs/configurations, decode-and-compare round trip over real HTTP"}
META["C15"] = {"text": "Generated requests and location configurations through real sockets; the harness upstream's request log is compared field by field with the client's request under the reference transformation, and conditional/Range handling is probed on cold, hit and hit-for-pass keys.", "design_ref": "DESIGN.md section 5 C15", "note": _NETNOTE, "technique": "property-based testing: generated requests/configurations, differential check of upstream log vs reference transformation"}
META["C19"] = {"text": "Generated outage sequences over 1-4 real upstream listeners with forced health-check settles; per-settle routing invariants; one real-time unforced recovery.", "design_ref": "DESIGN.md section 5 C19", "note": _NETNOTE + "; vicanso/upstream's DoHealthCheck is called directly to settle", "technique": "property-based testing with fault injection: generated up/down sequences, per-settle invariants"}
META["C20"] = {"text": "Randomised directed stress under the Go race detector with self-identifying bodies. This is the weakest kind of evidence in the set: it can demonstrate a race or a corrupted response, never their absence.", "design_ref": "DESIGN.md section 5 C20", "note": _NETNOTE + "; Go race detector", "technique": "fuzzing of concurrent workloads under the race detector (generated workload parameters), self-identifying responses"}
_PROCNOTE = "trusts the process control of the harness (exec, pwrite reload, stdout acknowledgement), the echo upstreams and Go's net/http client"
META["C16"] = {"text": "Differential testing of two real pike processes: one live-updated through a generated sequence of valid configurations, one freshly started with the final one; ~150 probes per server must agree.", "design_ref": "DESIGN.md section 5 C16", "note": _PROCNOTE, "technique": "property-based testing: generated configuration histories, differential oracle (live-updated vs fresh process)"}
META["C08"] = {"text": "Crash-point sampling on the real binary with a badger store (kill -9 at op boundaries and inside concurrent bursts, SIGTERM in thorough) plus exact evict/reload histories in the simulation; a history oracle with measured intervals decides staleness, Age continuity and integrity.", "design_ref": "DESIGN.md section 5 C08", "note": _PROCNOTE + "; " + _SIMNOTE, "technique": "property-based testing with crash injection: generated histories x kill points on the real process, interval-sound history oracle; model-based simulation for evict/reload"}
NOT_APPLICABLE.clear()

# ---- later additions to the level texts (keep in sync with checks_table.py)
META["C01"]["text"] += " A free-running complement (TestC01ColdBurst, real goroutines) exercises the dispatcher's get-or-create, which has no yield point."
META["C03"]["text"] += " TestC03Histories adds the delivery and label clauses over generated histories (expiry, refetches turning uncacheable, waiters) judged by the per-key automaton."
META["C06"]["text"] += " Key sets include 300-byte URIs differing only in the middle; TestC06Concurrent looks up same-shard keys from real goroutines."
META["C11"]["text"] += " TestC11Reload adds reload histories of the cache list (sizes changing across the 1024 boundary, caches dropped and re-created): never more keys than the largest size ever configured."
META["C13"]["text"] += " TestC13Server checks end to end that the per-server threshold (1 KiB default, SI units) and filter reach the negotiation for fresh and in-place updated servers."
META["C14"]["text"] += " TestC14Server checks end to end (upstream log, locations marking their requests) that the proxy uses the raw request URI and only the server's own locations, and answers 5xx without an upstream contact when nothing matches."
META["C17"]["text"] += " TestC17Apply applies accepted configurations in-process and probes every server x listed location for pike's not-found errors."
META["C18"]["text"] += " TestC18Admin drives the real admin endpoint with keys needing query escaping and purges racing a 1 s fetch."
META["C19"]["text"] += " The unforced variants rely on pike's own periodic checker only, also after a reload that leaves the upstream unchanged."
META["C09"]["text"] += " Thorough adds a native coverage-guided target."
META["C12"]["text"] += " Streams are verified only after further encode calls; multi-member gzip and multi-frame zstd streams are included; thorough adds a native coverage-guided target."
META["C16"]["text"] += " Client traffic on servers whose closure is unchanged by an update must not fail; removed servers (also several at once) must stop listening after the grace period."
META["C11"]["text"] += " TestC11Sim drives the server's cache middleware in the simulation (sizes 1..24, with and without a store, URIs of many lengths): after every operation each cache holds exactly the keys the history accounts for, the index of every shard matches its recency list, and every reported removal names a resident key."
META["C11"]["note"] += "; hook VerifIndexLen reads the length of groupcache's unexported index map by reflection"
META["C12"]["text"] += " Hostile length fields: rebuilt zstd frame headers (every descriptor layout, declared sizes up to 2^64-1), gzip ISIZE, snappy and lz4 length prefixes."
META["C15"]["text"] += " Rewrite rules are generated (1-3 wildcards, anchored or not, capture tokens in any order separated by / - _ x . ~ or nothing, literal tails, one or two rules) and judged by a structural reference substitution."
META["C16"]["text"] += " Compress levels are optional per encoding (set / unset across updates)."
META["C18"]["text"] += " Keys differ in the Host header too (mixed case, port, twins differing only in case)."
META["C20"]["text"] += " TestC20Cache adds the entry-level anchor (the response handed to coalesced requests is the published one, complete, and unchanged when a later hit reads it) under the race detector on the cache package itself."
# round 4
META["C01"]["text"] += " Cache sizes that are not a multiple of the shard count (100, 1001, 2000) are drawn together with reload operations; waiting clients may go away (their request context is cancelled)."
META["C02"]["text"] += " A waiting client may go away (context cancelled) at any quiescent point; nobody else may be disturbed by it."
META["C03"]["text"] += " TestC03Forward (real sockets) checks exactly-once forwarding of non-GET/HEAD requests while the origin resets connections, breaks off bodies or answers 500."
META["C04"]["text"] += " The Age of a request answered from a fetch that ended at the same virtual instant is checked too (it is that of a response obtained now)."
META["C05"]["text"] += " TestC05CutBody: upstream answers that break off in the middle of the body are never delivered or cached as complete responses."
META["C06"]["text"] += " Hosts differ in case, trailing dot, port and trailing digits; half of the cases keep the drawn URIs (keys that differ in host or method only), the others force shard collisions."
META["C07"]["text"] += " TestC07Store: with a reliable store and an LRU smaller than the working set, a marker that left memory inside its period must come back from the store (pass, not probe; nobody queues)."
META["C08"]["text"] += " In 60% of the crash cases a second server with its own cache, badger directory and upstream serves the same Host and URIs: a record written through one must never be served through the other."
META["C10"]["text"] += " Fault kinds include a well-formed record whose content-type filter text is no regular expression any more."
META["C13"]["text"] += " Accept-Encoding lists include other tokens that contain a coding's name before and after the real token."
META["C14"]["text"] += " TestC14Server also sends requests inside the update window (locations replaced, servers not yet updated); they must leave nothing behind."
META["C15"]["text"] += " HEAD requests carry validators and Range too (HEAD entries are stored like GET entries)."
META["C16"]["text"] += " 40% of the scenarios put all caches (8 entries each) on one shared badger directory and retain 40 entries: what lives in the store only must survive the removal of other caches."
META["C17"]["text"] += " Applied configurations include caches with store urls (badger directory in two spellings, one that cannot be opened, an unreachable redis): every server must still answer."
META["C19"]["text"] += " Health-check paths /health, / and /ping; 'down' is either a closed listener or a server that keeps listening and answers 500 to everything."
# round 5
_ALL = " Every oracle evaluated in a run counts for this check (an oracle the model attributes to another listed property still fails it; the attribution is kept in the oracle name)."
for _p in META:
    META[_p]["text"] += _ALL
META["C03"]["text"] += " TestC03Forward also has a location that adds its own Cache-Control response header in front of origins answering private / no-store / no-cache / Set-Cookie."
META["C04"]["text"] += " Every key has a twin of the other method (GET/HEAD) on the same URI."
META["C05"]["text"] += " Compress levels include out-of-range values (10-12, 100), which must fall back to the defaults."
META["C09"]["text"] += " TestC09FilterLimit: every content-type filter the configuration validation accepts (ASCII and multi-byte, around 1000 bytes / characters) must survive the round trip of an entry."
META["C13"]["text"] += " TestC13Server configures a sibling server with other settings before or after the server under test."
META["C16"]["text"] += " 40% of the scenarios end with two saves 1-300 ms apart (the first makes the reload slow): the instance must end up with the last one."
META["C17"]["text"] += " Location hosts in applied configurations are mixed-case and probed as written."
META["C18"]["text"] += " TestC18Admin runs half of its cases on stores whose delete takes 15 ms and purges keys while clients keep asking for them."
META["C20"]["text"] += " Half of the stress traffic goes through a rewrite rule with two captures."
# round 6
META["C03"]["text"] += " A quarter of the generated upstream header sets carry the labels of another cache tier (X-Status, X-Cache, Via)."
META["C04"]["text"] += " TestC04Store: small caches on a store; lifetime and Age keep counting from the original fetch across reloads."
META["C06"]["text"] += " TestC06Store judges C08's kill/restart histories on real badger stores for C06 (URIs that are proper prefixes of others, keys longer than a badger key, a second cache on the same URLs)."
META["C07"]["text"] += " Outcomes include upstream bodies that break off (the handler panics)."
META["C08"]["text"] += " URIs differ only at their very end (keys 10-39 extend keys 1-3); a quarter of the scenarios have two keys sharing 65 100 bytes."
META["C10"]["text"] += " TestC10StoreOpen: real back ends that cannot be used at all (badger directory impossible / a file / locked, unreachable redis)."
META["C11"]["note"] += "; VerifOnEvicted chains to a callback pike itself installs"
META["C13"]["text"] += " Filters that match the empty content type (.*, ^, json|) are part of the table."
META["C14"]["text"] += " TestC14Server uses mixed-case host names."
META["C16"]["text"] += " 20% of the scenarios end with a configuration without any server (listeners must go away, acknowledged or not)."
META["C18"]["text"] += " Keys include 1.6 KB query strings."
# round 7
META["C01"]["text"] += " A third yield point (get.enter, between the lookup of the key's entry and the Get on it) lets requests hold an entry across expiry, purge and eviction."
META["C01"]["note"] += "; hook 13c1fe9 adds the yield point get.enter"
META["C02"]["text"] += " Proxy timeouts include sub-second values; every upstream exchange of a location with a proxy timeout must carry that deadline."
META["C03"]["text"] += " Age values beyond the representable range count as a very large age."
META["C07"]["text"] += " With two caches the second one may leave hitForPass unset (default 300 s) next to an explicit value on the first."
META["C10"]["text"] += " TestC10SlowStore: store calls that take 20-80 ms while staggered bursts ask for a record that left memory."
META["C12"]["text"] += " Inputs include data that is itself a compressed stream of one of the five formats (or begins with its magic number)."
META["C13"]["text"] += " Half of the per-request compressions in the table use a profile with the fastest levels; the stored variant must still be best-compression output."
META["C14"]["text"] += " TestC14Config routes generated location configuration entries (any host case, prefix /) through location.Reset and the package registry."
META["C15"]["text"] += " Paths include escapes that a re-encoding would change (%2F, %3B, lower-case hex), with and without a matching rewrite rule."
META["C18"]["text"] += " A third of the admin cases starts after the caches have been dropped and re-created under the same names by two reloads."
META["C19"]["text"] += " TestC19Alarm runs the real binary with --alarm pointing at receivers that hang, are slow, answer or refuse, under pike's own periodic checker."
META["C20"]["text"] += " Some keys (one of the hot ones) become cacheable only after two answers, while conditional requests keep arriving."
# round 8
META["C02"]["text"] += " The client of an in-flight exchange (the fetcher, a pass) may go away too; its exchange ends with context.Canceled and everybody waiting behind it must be released."
META["C05"]["text"] += " Each case ends with conditional requests (If-None-Match, If-Modified-Since) for the cached and the pass-through key: 304 only for a 2xx answer with a matching validator, everything else unaltered."
META["C07"]["text"] += " TestC07Burst (real transport): bursts of 40-130 concurrent passes on 1-3 hit-for-pass keys (or POST) against an origin that answers once the whole burst is inside it; nobody may be queued inside pike."
META["C08"]["text"] += " A kill may be followed by a start while the store directories are still held by another process (the instance must start and serve without persistence); a request that fails without overlapping a stop is a violation."
META["C11"]["text"] += " TestC11Reload drives up to three caches that are removed (singly, several in one reload) and re-created with other sizes."
META["C12"]["text"] += " A third of the encoder cases set the levels the way a running instance receives them: an existing profile updated by a second Reset."
META["C13"]["text"] += " A third of the table's cells serve the response after it went through its persisted form."
META["C16"]["text"] += " Memory-only caches have sizes 1000, 1001, 1023, 4100 or 5000 (sizes the shards do not divide evenly; all large enough for the probes of a case not to evict the retained entry)."
META["C17"]["text"] += " Half of the accepted configurations are saved a second time, half of those after the stored configuration was replaced behind pike's back; Read must return what the last successful Write saved."
META["C18"]["text"] += " A quarter of the admin cases use a store whose write takes 40 ms and fill a key, purge it straight away and ask again once the write must have landed."
META["C19"]["text"] += " A quarter of the events are single requests that fail in the proxy (the server resets the connection while answering) followed by a phase judged without a forced health check."
META["C20"]["text"] += " The reloads of the stress change the definition of the upstream in use (health check with a 15 ms answer, policy) every second time."
# round 9
META["C02"]["text"] += " A quarter of the scenarios run on the fault-injecting store (errors on read, write and delete) next to timeouts, cancels and purges."
META["C03"]["text"] += " TestC03Histories draws bodies above the compress threshold and gzip/br clients, so that what was compressed for a response that must not be stored cannot surface in a hit."
META["C05"]["text"] += " Each case also sends HEAD, GET, GET, HEAD on a third URL (the HEAD's bodiless answer must not become what GET clients get; this sequence found the defect repaired in 57f6a35)."
META["C06"]["text"] += " The simulated histories of TestC06 draw bodies above the compress threshold too."
META["C08"]["text"] += " TestC08SlowReload: a persisted record that left memory is asked for by several clients at once while the store is slow."
META["C10"]["text"] += " TestC10Admin: admin purges (also under traffic) on stores whose delete or write is slow."
META["C11"]["text"] += " TestC11Retained asks the garbage collector instead of the shards' counters: after N > S keys were stored, at most S (+4 slack) of the stored responses may still be reachable."
META["C11"]["note"] += "; TestC11Retained relies on finalizers and repeated runtime.GC (up to 6 s) and allows a slack of 4 objects for stale stack slots"
META["C12"]["text"] += " TestC12Malformed decodes a valid stream of the same format right after every malformed one (a decoder must not carry state over from a failed decode)."
META["C13"]["text"] += " The cacheable cells that are served after a store round trip belong to a store-backed entry: what a new entry of the key finds in the store is what the table is checked on."
META["C14"]["text"] += " TestC14Config gives locations 0-2 rewrite rules, some of which are no regular expressions; routing must not depend on them."
META["C17"]["text"] += " A quarter of the applied configurations contain two locations sharing a name (accepted by the validation); every entry is probed."
META["C19"]["text"] += " Every phase without a healthy server ends with three bursts of 32 concurrent GETs for one URL: each must get its 5xx within 12 s."
META["C20"]["text"] += " 15% of the stress requests are HEAD."
# round 10
META["C01"]["text"] += " Fetch outcomes include an upstream body that breaks off (the handler panics while requests are coalesced behind the fetch)."
META["C02"]["text"] += " TestC02Hammer (free-running goroutines on the cache package: lookup, Get, Age on a hit, store or hit-for-pass on a fetch, expiry, purges; oracle = progress) covers what happens between two lock operations of one entry, where the simulation has no schedule point."
META["C02"]["note"] = (META["C02"].get("note") or "") + "; TestC02Hammer reports a stall when no lookup at all completes for 20 s (lookups take microseconds)"
META["C04"]["text"] += " TestC04SlowWrite (real clock): a store write that outlasts the lifetime while requests queue on the entry; nobody may be served the response a whole second past its lifetime or with an Age beyond it. Requests coalesced behind such a fetch are excluded as the open finding waiter-answer-delayed-by-store-write (probe TestC04ProbeWaiterSlowWrite)."
META["C05"]["text"] += " Six concurrent uncached requests with different bodies in the scenario's upstream encoding: each client gets its own body."
META["C06"]["text"] += " The key pool contains the same path in several percent-encodings (%2F, %2f, %7E, %41 and their decoded twins)."
META["C08"]["text"] += " TestC08Sim draws upstream Age values; the Age of one stored response must advance by the time that passed between any two hits on it (from the second second on), wherever the entry lived in between."
META["C09"]["text"] += " TestC09StoreRestore: hit / hit-for-pass entries with timestamps relative to now (ages 0..10 years, 1 minute..2^40 s left) are written to a store and found by a new entry of the key: same state, same age, same answers."
META["C10"]["text"] += " Half of the slow-write stores of TestC10Admin take 160 ms."
META["C13"]["text"] += " TestC13Server sets the upstream's acceptEncoding option in half of the cases."
META["C14"]["text"] += " TestC14Config hands the lookup a copy of the server's location list and requires it back unchanged."
META["C15"]["text"] += " With a configured upstream Accept-Encoding (and no Range request in the case) the upstream answers gzip-encoded; the client must still receive the full resource."
META["C17"]["text"] += " After the probes TestC17Apply applies the same accepted configuration three more times while four clients keep requesting every location: nothing may become unresolvable in between."
META["C18"]["text"] += " A quarter of TestC18's scenarios run on the fault-injecting store (failing deletes only): a purge of all caches must not depend on the first cache's store."
# round 11
META["C01"]["text"] += " A quarter of TestC01ColdBurst's cases are bursts of 130-600 requests behind a fetcher that takes 10-30 ms ('any number of concurrent requests')."
META["C04"]["text"] += " TestC04Location (real clock): a location whose respHeaders add a more restrictive Cache-Control (s-maxage) than the upstream's; the stored response lives as long as the response pike hands out says."
META["C12"]["text"] += " zst streams with a leading or trailing skippable frame are part of the valid streams."
META["C15"]["text"] += " A Range header must reach the upstream on every request that is not a cold cacheable fetch (hit-for-pass, passed)."
META["C16"]["text"] += " One scenario in six removes a cache (its servers move to another cache for one configuration) and creates it again: the re-created memory-only cache must be as empty as after a fresh start."
META["C18"]["text"] += " TestC18Store judges C08's kill/restart histories (real badger, keys whose URI is a proper prefix of another key's, admin purges, an 8-entry memory) for 'other keys keep their entries': within one instance a fresh cacheable key is not fetched again when only other keys were purged in between."
META["C18"]["note"] = (META["C18"].get("note") or "") + "; TestC18Store leaves out keys longer than a badger key (never persisted), requests within 1.5 s of the expiry and keys with overlapping requests"
META["C19"]["text"] += " A third of the cases save the configuration with config.Write and apply what config.Read returns (as the admin page does)."
META["C20"]["text"] += " Two of ten stress keys come zst-encoded from the upstream (decoded by pike on receipt, concurrently)."
