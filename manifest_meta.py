HOOK_COMMITS = ["e850d8f"]
NOTES = ("Driver: ./check <ID> <quick|thorough>; ./check replay <path>; ./check setup. Technique family: property-based testing "
         "(pgregory.net/rapid v1.3.0) and fuzzing; see DESIGN.md. known_findings.json lists fixed/open findings.")
_PENDING = "check not built yet in this revision (work in progress; see DESIGN.md section 8 build order)"
NOT_APPLICABLE = {"C%02d" % i: _PENDING for i in range(1, 21)}
META = {}
META["C11"] = {
    "text": ("Generated search: every size 1..300 plus edge sizes is enumerated with a sequence overfilling every shard, and rapid draws sizes and "
             "get/remove sequences; after every operation the resident count (hook VerifLen) is compared with S and with an LRU model fed by the "
             "observed evictions (identity of returned entries, LRU victim, one eviction per insertion, shard locality). Exploration, not proof: "
             "sizes above 4096 and sequences beyond the generated lengths are sampled only."),
    "design_ref": "DESIGN.md section 5 C11",
    "note": "trusts the hook VerifLen/VerifOnEvicted (thin wrappers over groupcache lru Len/OnEvicted) and MemHash for shard attribution",
    "technique": "property-based testing: model-based stateful test (rapid) + exhaustive enumeration of sizes, LRU reference model",
}

_SIMNOTE = "trusts go1.26.8 testing/synctest (fake clock, quiescence), the hooks (yield points, handler accessor, store registry) and the reference automaton written from the property statements"
META["C01"] = {"text": "Schedule/clock exploration: thousands of generated interleavings of requests, completions, expiry, parked waiters and purges are run through pike's real middleware chain in a synctest bubble and checked step by step against a per-key reference automaton (one in-flight fetch, waiters answered from it, one upstream request per lifetime). Exploration only: interleavings inside critical sections are not enumerated.", "design_ref": "DESIGN.md section 5 C01, appendix A", "note": _SIMNOTE, "technique": "property-based testing: model-based stateful schedule exploration (rapid) in a deterministic simulation (synctest), reference automaton"}
META["C02"] = {"text": "Same engine with fault outcomes (error, timeout, body abort = panic, uncacheable): after every op no waiter of an ended fetch may remain blocked, the bubble's deadlock detector catches lost wake-ups exactly, every request must finish after the drain.", "design_ref": "DESIGN.md section 5 C02", "note": _SIMNOTE, "technique": "property-based testing: generated schedules x fault sequences, quiescence invariant + deadlock detection"}
META["C03"] = {"text": "Generated header language against a reference cacheability predicate; the second identical request tells whether the response was stored; the upstream log tells whether labels are truthful.", "design_ref": "DESIGN.md section 5 C03", "note": _SIMNOTE, "technique": "property-based testing: grammar-based input generation, reference predicate (differential)"}
META["C04"] = {"text": "Timed histories on a virtual clock with millisecond control around every expiry boundary, checked against an interval automaton with one-second tolerance.", "design_ref": "DESIGN.md section 5 C04", "note": _SIMNOTE, "technique": "property-based testing: generated timed histories on a virtual clock, interval reference model"}
META["C06"] = {"text": "Adversarial key sets on tiny caches (forced shard collisions and evictions) with self-identifying upstream bodies: any cross-key delivery is visible in the body.", "design_ref": "DESIGN.md section 5 C06", "note": _SIMNOTE, "technique": "property-based testing: adversarial key generation, self-identifying responses"}
META["C07"] = {"text": "Histories around the hit-for-pass period with bursts left pending together; automaton with one-second tolerance.", "design_ref": "DESIGN.md section 5 C07", "note": _SIMNOTE, "technique": "property-based testing: model-based timed histories (rapid + synctest)"}
META["C10"] = {"text": "Per-call store fault scripts (errors, missing, truncated/garbled records) injected under generated histories; the store must be invisible to clients.", "design_ref": "DESIGN.md section 5 C10", "note": _SIMNOTE + "; fault store registered through the hook and reached via the real store.NewStore", "technique": "property-based testing with fault injection: generated fault sequences, reference automaton"}
META["C18"] = {"text": "Histories of requests and purges (named/unnamed/absent) racing fetches on two caches with a store, checked against the automaton and by inspecting the store.", "design_ref": "DESIGN.md section 5 C18", "note": _SIMNOTE, "technique": "property-based testing: model-based histories (rapid + synctest), store inspection"}
HOOK_COMMITS[:] = ["e850d8f"]
