HOOK_COMMITS = ["e850d8f"]
NOTES = ("Driver: ./check <ID> <quick|thorough>; ./check replay <path>; ./check setup. Technique family: property-based testing "
         "(pgregory.net/rapid v1.3.0) and fuzzing; see DESIGN.md. known_findings.json lists fixed/open findings.")
_PENDING = "check not built yet in this revision (work in progress; see DESIGN.md section 8 build order)"
NOT_APPLICABLE = {"C%02d" % i: _PENDING for i in range(1, 21)}
META = {}
META["C11"] = {
    "text": ("Generated search: every size 1..300 plus edge sizes is enumerated with a sequence overfilling every shard, and rapid draws sizes and "
             "get/remove sequences; after every operation the resident count (hook VerifLen) is compared with S and with an LRU model fed by the "
             "observed evictions (identity of returned entries, LRU victim, one eviction per insertion, shard locality). Exploration, not proof: "
             "sizes above 4096 and sequences beyond the generated lengths are sampled only."),
    "design_ref": "DESIGN.md section 5 C11",
    "note": "trusts the hook VerifLen/VerifOnEvicted (thin wrappers over groupcache lru Len/OnEvicted) and MemHash for shard attribution",
    "technique": "property-based testing: model-based stateful test (rapid) + exhaustive enumeration of sizes, LRU reference model",
}
