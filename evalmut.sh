#!/bin/bash
# evalmut.sh <dir with patch.diff (+ demo *_test.go)> <property id> [tier] [extra check ids...]
# 1. confirms in a scratch worktree that the patch applies, builds, keeps the existing suite green
#    and that the demonstration fails with / passes without it;
# 2. applies the patch to /repo, runs the check(s), and undoes it straight afterwards.
set -u
export GOFLAGS=-mod=mod GOPROXY=off GOSUMDB=off GOTOOLCHAIN=local
D=$(readlink -f "$1"); ID=$2; TIER=${3:-quick}; shift; shift; shift 2>/dev/null
EXTRA="$@"
W=/tmp/mut/eval-wt-$$
git -C /repo worktree add --detach -q "$W" HEAD || exit 2
cleanup() { git -C /repo worktree remove --force "$W" 2>/dev/null; }
trap cleanup EXIT
cd "$W"
if [ "${SKIP_CONFIRM:-}" = "" ]; then
  demos=$(cd "$D" && ls *_test.go 2>/dev/null)
  # demo without the change
  for f in $demos; do pkg=$(grep -m1 '^package ' "$D/$f" | awk '{print $2}' | sed 's/_test$//'); [ "$pkg" = "main" ] && pkg=.; cp "$D/$f" "$W/$pkg/$f" 2>/dev/null || cp "$D/$f" "$W/$f"; done
  if [ -f "$D/demo_cmd.txt" ]; then DEMO=$(cat "$D/demo_cmd.txt"); else DEMO=""; fi
  echo "--- demo WITHOUT the change: $DEMO"
  if [ -n "$DEMO" ]; then (eval "$DEMO") > /tmp/mut/demo-without.log 2>&1; echo "exit $?"; tail -3 /tmp/mut/demo-without.log; fi
  git apply "$D/patch.diff" || { echo "PATCH DOES NOT APPLY"; exit 2; }
  go build ./... || { echo "DOES NOT BUILD"; exit 2; }
  echo "--- demo WITH the change"
  if [ -n "$DEMO" ]; then (eval "$DEMO") > /tmp/mut/demo-with.log 2>&1; echo "exit $?"; tail -5 /tmp/mut/demo-with.log; fi
  for f in $demos; do find "$W" -name "$f" -delete; done
  echo "--- existing suite with the change (3 network tests are expected to fail)"
  go test -vet=off -count=1 ./app ./cache ./compress ./config ./location ./server ./store ./upstream ./util 2>&1 | grep -E "^(ok|FAIL|---)" | grep -v "TestEtcdClient\|TestNewMongoStore\|TestUpstreamServer"
fi
cd /verif
git -C /repo status --porcelain | grep -q . && { echo "/repo is dirty, refusing"; exit 2; }
git -C /repo apply "$D/patch.diff" || exit 2
for id in $ID $EXTRA; do
  echo "--- ./check $id $TIER with the change applied to /repo"
  ./check $id $TIER 2>&1 | grep -E "VIOLATION|INCONCLUSIVE|BUILD-ERROR|$TIER:" | head -5 | cut -c1-400
done
git -C /repo checkout -- . && git -C /repo status --porcelain
