#!/usr/bin/env python3
"""Rewrites section 0.7 of DESIGN.md from seeded/*/meta.json."""
import json, glob, os, re
rows = []
for d in sorted(glob.glob('/verif/seeded/*/')):
    m = json.load(open(d + 'meta.json'))
    sid = os.path.basename(d.rstrip('/'))
    ran = m['what_i_ran']
    if 'MISSED' in ran:
        verdict = 'missed at first; caught after the check was strengthened'
    elif 'INCONCLUSIVE' in ran:
        verdict = 'inconclusive at first; caught after the check was strengthened'
    else:
        verdict = 'caught'
    rows.append((sid, m['breaks_property'], m['needs_to_manifest'], verdict, ran))
out = ["### 0.7 Seeded changes evaluated so far", "",
       "Each change was written by a fresh sub-agent that saw only the property text and a scratch worktree (nothing from /verif).",
       "For each one I confirmed in a scratch worktree that the patch applies, builds, keeps the existing suite green (the three",
       "network tests aside) and that its demonstration passes without and fails with the change (`evalmut.sh`); then the patch was",
       "applied to /repo, the property's quick check was run, and the patch was removed again. Patches, demonstrations and",
       "meta.json are under /verif/seeded/<id>/.", "",
       "| seeded change | property | needs, in order to manifest | result | detail |", "|---|---|---|---|---|"]
for r in rows:
    out.append("| %s | %s | %s | %s | %s |" % tuple(x.replace('|', '/') for x in r))
n_missed = sum(1 for r in rows if r[3] != 'caught')
out += ["", "%d seeded changes so far; %d were caught by the quick tier as it stood, %d were not and led to the strengthenings listed in their rows (all are caught now)." % (len(rows), len(rows) - n_missed, n_missed), ""]
p = '/verif/DESIGN.md'
s = open(p).read()
a = s.index("### 0.7 Seeded changes evaluated so far")
b = s.index("---------------------------------------------------------------------------\n\n## 1. Approach")
s = s[:a] + "\n".join(out) + "\n" + s[b:]
open(p, 'w').write(s)
print(len(rows), "rows")
