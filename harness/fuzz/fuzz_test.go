//go:build verif

// Package fuzz holds the native (coverage-guided) fuzz targets; thorough tier only.
// The oracle sits inside each target; Go's fuzzer cannot be seeded, so the
// saved crasher (testdata/fuzz/<Target>/<hash>) is the reproducible unit.
package fuzz

import (
	"bytes"
	"compress/gzip"
	"encoding/binary"
	"net/http"
	"reflect"
	"runtime"
	"testing"

	"github.com/andybalholm/brotli"
	"github.com/golang/snappy"
	"github.com/vicanso/pike/cache"
	"github.com/vicanso/pike/compress"
)

func validRecord(status cache.Status, body string, gz bool) []byte {
	h := http.Header{"Content-Type": []string{"text/plain"}, "X-Multi": []string{"a", "b"}}
	resp, _ := cache.NewHTTPResponse(200, h, "", []byte(body))
	resp.CompressSrv = "bestCompression"
	resp.CompressMinLength = 1024
	if gz {
		var b bytes.Buffer
		w := gzip.NewWriter(&b)
		_, _ = w.Write([]byte(body))
		_ = w.Close()
		resp.GzipBody = b.Bytes()
		resp.RawBody = nil
	}
	hc := cache.VerifNewEntry(status, resp, 946684800, 946684860)
	data, _ := hc.Bytes()
	return data
}

// FuzzC09FromBytes: decoding arbitrary bytes never panics, never allocates far
// beyond the input, and whatever decodes is a fixed point of encode/decode.
func FuzzC09FromBytes(f *testing.F) {
	f.Add(validRecord(cache.StatusHit, "hello world", false))
	f.Add(validRecord(cache.StatusHit, "hello world hello world hello world", true))
	f.Add(validRecord(cache.StatusHitForPass, "", false))
	marker := cache.VerifNewEntry(cache.StatusHitForPass, nil, 1, 2)
	if b, err := marker.Bytes(); err == nil {
		f.Add(b)
	}
	for _, v := range []uint32{0, 1, 0x7fffffff, 0x80000000, 0xffffffff} {
		b := validRecord(cache.StatusHit, "x", false)
		binary.BigEndian.PutUint32(b[4:], v)
		f.Add(b)
		b2 := validRecord(cache.StatusHit, "x", false)
		binary.BigEndian.PutUint32(b2[8:], v)
		f.Add(b2)
	}
	f.Add([]byte{})
	f.Add([]byte{0, 0, 0, 3})
	f.Fuzz(func(t *testing.T, data []byte) {
		var m0, m1 runtime.MemStats
		runtime.ReadMemStats(&m0)
		hc := cache.NewHTTPCache()
		err := hc.FromBytes(data)
		runtime.ReadMemStats(&m1)
		if alloc, limit := m1.TotalAlloc-m0.TotalAlloc, uint64(8<<20+64*len(data)); alloc > limit {
			t.Fatalf("FromBytes allocated %d bytes for a %d-byte input (limit %d)", alloc, len(data), limit)
		}
		if err != nil {
			return
		}
		d2, err := hc.Bytes()
		if err != nil {
			return
		}
		h2 := cache.NewHTTPCache()
		if err := h2.FromBytes(d2); err != nil {
			t.Fatalf("re-encoding a decoded record gives bytes that do not decode: %v", err)
		}
		s1, r1, c1, x1 := hc.VerifEntryFields()
		s2, r2, c2, x2 := h2.VerifEntryFields()
		if s1 != s2 || c1 != c2 || x1 != x2 {
			t.Fatalf("decode(encode(decode(x))) differs in the entry fields")
		}
		if (r1 == nil) != (r2 == nil) {
			t.Fatalf("response presence differs")
		}
		if r1 != nil {
			if r1.StatusCode != r2.StatusCode || r1.CompressSrv != r2.CompressSrv || r1.CompressMinLength != r2.CompressMinLength ||
				!bytes.Equal(r1.RawBody, r2.RawBody) || !bytes.Equal(r1.GzipBody, r2.GzipBody) || !bytes.Equal(r1.BrBody, r2.BrBody) ||
				!(len(r1.Header) == 0 && len(r2.Header) == 0 || reflect.DeepEqual(r1.Header, r2.Header)) {
				t.Fatalf("decode(encode(decode(x))) differs in the response")
			}
		}
	})
}

// FuzzC12Decoders: malformed streams never panic (a panic or a hang kills the
// worker and is reported as a crasher); a stream pike's decoder accepts must be
// accepted with the same result when decoded again (determinism), and valid
// prefixes produced by the seed encoders decode to their inputs.
func FuzzC12Decoders(f *testing.F) {
	srv := compress.NewService()
	sample := []byte("lorem ipsum dolor sit amet lorem ipsum dolor sit amet 0123456789")
	var gz bytes.Buffer
	w := gzip.NewWriter(&gz)
	_, _ = w.Write(sample)
	_ = w.Close()
	f.Add(uint8(0), gz.Bytes())
	f.Add(uint8(0), append(append([]byte{}, gz.Bytes()...), gz.Bytes()...))
	var br bytes.Buffer
	bw := brotli.NewWriterLevel(&br, 5)
	_, _ = bw.Write(sample)
	_ = bw.Close()
	f.Add(uint8(1), br.Bytes())
	f.Add(uint8(2), []byte{0x10 | 0x0f, 'a', 1, 0, 200, 0x50, 'a', 'a', 'a', 'a', 'a'})
	f.Add(uint8(2), []byte{0xff, 255, 255, 255, 7})
	f.Add(uint8(3), snappy.Encode(nil, sample))
	f.Add(uint8(3), binary.AppendUvarint(nil, 1<<30))
	encs := []string{"gzip", "br", "lz4", "snz"}
	f.Fuzz(func(t *testing.T, which uint8, data []byte) {
		enc := encs[int(which)%len(encs)]
		if enc == "snz" {
			if v, n := binary.Uvarint(data); n > 0 && v > 16<<20 {
				t.Skip("declared size above 16 MiB")
			}
		}
		if len(data) > 1<<20 {
			t.Skip()
		}
		out1, err1 := srv.Decompress(enc, data)
		out2, err2 := srv.Decompress(enc, data)
		if (err1 == nil) != (err2 == nil) || !bytes.Equal(out1, out2) {
			t.Fatalf("%s decoder is not deterministic on the same input", enc)
		}
	})
}
