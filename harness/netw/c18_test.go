//go:build verif

package netw

// C18 (end-to-end part) — purge through the real admin endpoint
// DELETE /cache?key=&cache= ; two servers bound to two caches; keys with
// characters that need query escaping.  Also checks that a purge issued while
// a slow fetch is in flight returns promptly and strands nobody.

import (
	"fmt"
	"io"
	"net"
	"net/http"
	"net/url"
	"strings"
	"sync"
	"testing"
	"time"

	"github.com/vicanso/pike/config"
	"github.com/vicanso/pike/server"
	"github.com/vicanso/pike/store"
	"pgregory.net/rapid"

	"verif/harness/internal/vstat"
)

type c18Op struct {
	K     string `json:"k"` // get | purge | purge-during-fetch
	Key   int    `json:"key"`
	Srv   int    `json:"srv"`
	Cache string `json:"cache,omitempty"` // "", c1, c2, nope
	Wrong bool   `json:"wrong,omitempty"` // purge a key that differs slightly (absent key)
}

type c18Scenario struct {
	Keys  []string `json:"keys"`            // URIs
	Hosts []string `json:"hosts,omitempty"` // Host header of each key (parallel to Keys; c18.test when absent)
	// Store: both caches persist into a store whose delete takes a few milliseconds (as a remote store's would)
	Store bool `json:"store,omitempty"`
	// SlowSet (with Store): it is the store's write that takes a while (40 ms) instead of its delete
	SlowSet bool `json:"slowSet,omitempty"`
	// Recreate: before the history starts the caches are served once, dropped by a reload that
	// parks the servers on another cache, and brought back under the same names by a further reload
	Recreate bool    `json:"recreate,omitempty"`
	Ops      []c18Op `json:"ops"`
}

var (
	c18Once  sync.Once
	c18Up    *upstreamSrv
	c18Admin string
	c18Seq   int
	c18Cl    *http.Client
)

var c18Addrs = [2]string{"127.0.0.5:0", "127.0.0.6:0"}

var c18URIs = []string{"/long?q=" + strings.Repeat("0123456789abcdef", 100), "/long?q=" + strings.Repeat("0123456789abcdef", 100) + "&x=1", "/plain", "/with%20space", "/q?a=1&b=2", "/q?a=1%26b=2", "/plus+sign?x=a+b", "/uni/%E2%9C%93?k=%C3%A9", "/pct%25", "/q?b=2&a=1", "/hash%23frag", "/semi;colon?x=y;z", "/eq=sign?=", "/q?a=1&b=2&"}

func genC18e2e(t *rapid.T) c18Scenario {
	sc := c18Scenario{Store: rapid.Bool().Draw(t, "store"), Recreate: rapid.IntRange(0, 2).Draw(t, "recreate") == 0}
	sc.SlowSet = sc.Store && rapid.Bool().Draw(t, "slowSet")
	n := rapid.IntRange(2, 4).Draw(t, "nKeys")
	seen := map[string]bool{}
	// the Host header is part of the key exactly as the client sent it
	hosts := []string{"c18.test", "c18.test", "C18.Test", "c18.TEST", "c18.test:80", "Static.C18.test"}
	for len(sc.Keys) < n {
		u := rapid.SampledFrom(c18URIs).Draw(t, "uri")
		if len(sc.Keys) > 0 && rapid.IntRange(0, 2).Draw(t, "twin") == 0 {
			// the same URI as an earlier key under a host that differs (often only in case)
			u = sc.Keys[rapid.IntRange(0, len(sc.Keys)-1).Draw(t, "twinOf")]
		}
		h := rapid.SampledFrom(hosts).Draw(t, "host")
		if !seen[h+" "+u] {
			seen[h+" "+u] = true
			sc.Keys = append(sc.Keys, u)
			sc.Hosts = append(sc.Hosts, h)
		}
	}
	m := rapid.IntRange(4, 14).Draw(t, "nOps")
	for i := 0; i < m; i++ {
		op := c18Op{Key: rapid.IntRange(0, n-1).Draw(t, "key"), Srv: rapid.IntRange(0, 1).Draw(t, "srv")}
		switch rapid.IntRange(0, 9).Draw(t, "kind") {
		case 0, 1, 2, 3, 4:
			op.K = "get"
		case 5, 6, 7:
			op.K = "purge"
			op.Cache = rapid.SampledFrom([]string{"", "c1", "c2", "nope"}).Draw(t, "cache")
			op.Wrong = rapid.IntRange(0, 4).Draw(t, "wrong") == 0
		default:
			op.K = "purge-during-fetch"
			op.Cache = rapid.SampledFrom([]string{"", "c1", "c2"}).Draw(t, "cache")
			if sc.Store && rapid.Bool().Draw(t, "underTraffic") {
				op.K = "purge-under-traffic"
			}
		}
		sc.Ops = append(sc.Ops, op)
	}
	if sc.SlowSet {
		// a key is filled and purged straight away, then asked for again
		k, srv := rapid.IntRange(0, n-1).Draw(t, "fillPurgeKey"), rapid.IntRange(0, 1).Draw(t, "fillPurgeSrv")
		sc.Ops = append(sc.Ops, c18Op{K: "purge", Key: k}, c18Op{K: "get", Key: k, Srv: srv}, c18Op{K: "purge", Key: k, Cache: rapid.SampledFrom([]string{"", "c1", "c2"}).Draw(t, "fillPurgeCache")}, c18Op{K: "get", Key: k, Srv: srv})
	}
	return sc
}

func execC18e2e(sc c18Scenario) *vstat.Outcome {
	out := &vstat.Outcome{}
	c18Once.Do(func() {
		c18Up = newUpstream("c18")
		c18Cl = newClient()
		l, err := net.Listen("tcp", "127.0.0.1:0")
		if err != nil {
			panic(err)
		}
		c18Admin = l.Addr().String()
		_ = l.Close()
		go func() { _ = server.StartAdminServer(server.AdminServerConfig{Addr: c18Admin}) }()
		for i := 0; i < 200; i++ {
			c, err := net.DialTimeout("tcp", c18Admin, 100*time.Millisecond)
			if err == nil {
				_ = c.Close()
				break
			}
			time.Sleep(10 * time.Millisecond)
		}
	})
	c18Seq++
	n := c18Seq
	names := [2]string{fmt.Sprintf("c18a-%d", n), fmt.Sprintf("c18b-%d", n)}
	storeURL := [2]string{}
	if sc.Store {
		for i := range names {
			storeURL[i] = "verifmem://" + names[i]
			st := &slowDeleteStore{rtStore: rtStore{data: map[string]rtRec{}}, delay: 15 * time.Millisecond}
			if sc.SlowSet {
				st.delay, st.setDelay = 0, 40*time.Millisecond
				if n%2 == 0 {
					st.setDelay = 160 * time.Millisecond
				}
			}
			store.VerifRegisterStore(storeURL[i], st)
			defer store.VerifUnregisterStore(storeURL[i])
		}
	}
	cfg := &config.PikeConfig{
		Caches:    []config.CacheConfig{{Name: names[0], Size: 1000, HitForPass: "5m", Store: storeURL[0]}, {Name: names[1], Size: 1000, HitForPass: "5m", Store: storeURL[1]}},
		Upstreams: []config.UpstreamConfig{{Name: "c18up", Servers: []config.UpstreamServerConfig{{Addr: c18Up.URL()}}}},
		Locations: []config.LocationConfig{{Name: "c18loc", Upstream: "c18up"}},
		Servers: []config.ServerConfig{{Addr: c18Addrs[0], Locations: []string{"c18loc"}, Cache: names[0]},
			{Addr: c18Addrs[1], Locations: []string{"c18loc"}, Cache: names[1]}},
	}
	if err := applyConfig(cfg); err != nil {
		out.Inconclusive = true
		return out
	}
	if sc.Recreate {
		// each server answers one cacheable request from its cache, then a reload leaves only
		// a parking cache (the two caches disappear), then the first configuration comes back
		for i := range c18Addrs {
			warm := fmt.Sprintf("c18-%d-warm", n)
			c18Up.setSpec(warm, &respSpec{Status: 200, Headers: [][2]string{{"Cache-Control", "max-age=300"}, {"Content-Type", "text/plain"}}, Body: []byte("warm")})
			_ = do(c18Cl, reqSpec{Method: "GET", Addr: listenAddr(c18Addrs[i]), Host: "c18.test", URI: fmt.Sprintf("/c18-%d/warm", n), Header: http.Header{"X-Spec": []string{warm}}})
			c18Up.mu.Lock()
			delete(c18Up.specs, warm)
			c18Up.mu.Unlock()
		}
		park := fmt.Sprintf("c18park-%d", n)
		parked := *cfg
		parked.Caches = []config.CacheConfig{{Name: park, Size: 10, HitForPass: "5m"}}
		parked.Servers = []config.ServerConfig{{Addr: c18Addrs[0], Locations: []string{"c18loc"}, Cache: park}, {Addr: c18Addrs[1], Locations: []string{"c18loc"}, Cache: park}}
		if err := applyConfig(&parked); err != nil {
			out.Inconclusive = true
			return out
		}
		if err := applyConfig(cfg); err != nil {
			out.Inconclusive = true
			return out
		}
		out.Class("caches_dropped_and_recreated_before_the_history")
	}
	addrs := [2]string{listenAddr(c18Addrs[0]), listenAddr(c18Addrs[1])}
	spec := fmt.Sprintf("c18-%d", n)
	slow := fmt.Sprintf("c18-%d-slow", n)
	hdr := [][2]string{{"Cache-Control", "max-age=300"}, {"Content-Type", "text/plain"}}
	c18Up.setSpec(spec, &respSpec{Status: 200, Headers: hdr, Body: []byte("body of " + spec)})
	c18Up.setSpec(slow, &respSpec{Status: 200, Headers: hdr, Body: []byte("body of " + slow), DelayMs: 1000})
	defer func() {
		c18Up.mu.Lock()
		delete(c18Up.specs, spec)
		delete(c18Up.specs, slow)
		c18Up.logs = nil
		c18Up.mu.Unlock()
	}()
	host := "c18.test"
	hostOf := func(key int) string {
		if key < len(sc.Hosts) && sc.Hosts[key] != "" {
			return sc.Hosts[key]
		}
		return host
	}
	uriOf := func(key int) string { return fmt.Sprintf("/c18-%d", n) + sc.Keys[key] }
	// the request-URI as the Go client puts it on the wire (what pike builds the key from)
	wireURI := func(uri string) string {
		u, err := url.Parse("http://x" + uri)
		if err != nil {
			return uri
		}
		return u.RequestURI()
	}
	// model: cached[srv][key] = true when a completed cacheable fetch is stored and not purged since
	cached := [2]map[int]bool{{}, {}}
	purgeVia := func(key int, cacheSel string, wrong bool) (time.Duration, int, error) {
		name := cacheSel
		switch cacheSel {
		case "c1":
			name = names[0]
		case "c2":
			name = names[1]
		}
		cacheKey := "GET " + hostOf(key) + " " + wireURI(uriOf(key))
		if wrong {
			cacheKey += "x"
		}
		q := url.Values{}
		q.Set("key", cacheKey)
		if name != "" {
			q.Set("cache", name)
		}
		req, _ := http.NewRequest("DELETE", "http://"+c18Admin+"/cache?"+q.Encode(), nil)
		st := time.Now()
		resp, err := c18Cl.Do(req)
		if err != nil {
			return time.Since(st), 0, err
		}
		_, _ = io.Copy(io.Discard, resp.Body)
		resp.Body.Close()
		return time.Since(st), resp.StatusCode, nil
	}
	applyPurge := func(key int, cacheSel string, wrong bool) {
		if wrong || cacheSel == "nope" {
			return
		}
		if cacheSel == "" || cacheSel == "c1" {
			delete(cached[0], key)
		}
		if cacheSel == "" || cacheSel == "c2" {
			delete(cached[1], key)
		}
	}
	purgedFresh, reqAfterPurge, purgeDuringFetch, purgeUnderTraffic := 0, 0, 0, 0
	lastPurged := [2]map[int]bool{{}, {}}
	for i, op := range sc.Ops {
		what := fmt.Sprintf("op %d %+v", i, op)
		switch op.K {
		case "get":
			r := do(c18Cl, reqSpec{Method: "GET", Addr: addrs[op.Srv], Host: hostOf(op.Key), URI: uriOf(op.Key), Header: http.Header{"X-Spec": []string{spec}}})
			if r.Err != "" || r.Code != 200 {
				out.Violate("C18", "request", "%s: err %q status %d", what, r.Err, r.Code)
				continue
			}
			reached := len(c18Up.logsFor(func(l *upLog) bool { return l.ReqID == r.ReqID })) > 0
			if cached[op.Srv][op.Key] {
				if reached || r.Header.Get("X-Status") != "hit" {
					out.Violate("C18", "entry-lost", "%s: the entry of this key in this cache was not purged but the request went to the upstream (X-Status %q)", what, r.Header.Get("X-Status"))
				}
			} else {
				if !reached {
					out.Violate("C18", "purged-entry-served", "%s: the key is not (or no longer) stored in this cache but the request was answered without the upstream (X-Status %q)", what, r.Header.Get("X-Status"))
				}
				if lastPurged[op.Srv][op.Key] {
					reqAfterPurge++
				}
			}
			cached[op.Srv][op.Key] = true
			delete(lastPurged[op.Srv], op.Key)
		case "purge":
			wasFresh := (op.Cache == "" || op.Cache == "c1") && cached[0][op.Key] || (op.Cache == "" || op.Cache == "c2") && cached[1][op.Key]
			took, code, err := purgeVia(op.Key, op.Cache, op.Wrong)
			if err != nil || code != 204 {
				out.Violate("C18", "admin", "%s: admin purge failed: err %v status %d", what, err, code)
				continue
			}
			if took > 10*time.Second {
				out.Violate("C18", "purge-blocked", "%s: the purge took %s", what, took)
			}
			if wasFresh && !op.Wrong && op.Cache != "nope" {
				purgedFresh++
				if op.Cache == "" || op.Cache == "c1" {
					lastPurged[0][op.Key] = true
				}
				if op.Cache == "" || op.Cache == "c2" {
					lastPurged[1][op.Key] = true
				}
			}
			applyPurge(op.Key, op.Cache, op.Wrong)
			if sc.SlowSet {
				// whatever write was still on its way to the store when the purge completed has landed by now
				time.Sleep(220 * time.Millisecond)
			}
		case "purge-under-traffic":
			// a stored entry is purged while clients keep asking for it; once the purge has
			// completed nobody may be served the purged response any more
			uri := fmt.Sprintf("/c18-%d/traffic-%d", n, i)
			first := do(c18Cl, reqSpec{Method: "GET", Addr: addrs[0], Host: host, URI: uri, Header: http.Header{"X-Spec": []string{spec}}})
			second := do(c18Cl, reqSpec{Method: "GET", Addr: addrs[0], Host: host, URI: uri, Header: http.Header{"X-Spec": []string{spec}}})
			if first.Err != "" || second.Err != "" || second.Header.Get("X-Status") != "hit" {
				out.Violate("C18", "request", "%s: priming failed (%q %q, X-Status %q)", what, first.Err, second.Err, second.Header.Get("X-Status"))
				continue
			}
			purged := first.Header.Get("X-Serial")
			stop := make(chan struct{})
			var wg sync.WaitGroup
			for j := 0; j < 4; j++ {
				wg.Add(1)
				go func() {
					defer wg.Done()
					for {
						select {
						case <-stop:
							return
						default:
						}
						_ = do(c18Cl, reqSpec{Method: "GET", Addr: addrs[0], Host: host, URI: uri, Header: http.Header{"X-Spec": []string{spec}}})
					}
				}()
			}
			time.Sleep(5 * time.Millisecond)
			q := url.Values{}
			q.Set("key", "GET "+host+" "+wireURI(uri))
			if op.Cache != "" {
				q.Set("cache", names[0])
			}
			req, _ := http.NewRequest("DELETE", "http://"+c18Admin+"/cache?"+q.Encode(), nil)
			resp, err := c18Cl.Do(req)
			if err == nil {
				_, _ = io.Copy(io.Discard, resp.Body)
				resp.Body.Close()
			}
			time.Sleep(10 * time.Millisecond)
			close(stop)
			wg.Wait()
			if err != nil || resp.StatusCode != 204 {
				out.Violate("C18", "admin", "%s: admin purge failed: %v", what, err)
				continue
			}
			// the purge completed a while ago
			for j := 0; j < 2; j++ {
				r := do(c18Cl, reqSpec{Method: "GET", Addr: addrs[0], Host: host, URI: uri, Header: http.Header{"X-Spec": []string{spec}}})
				if r.Err == "" && r.Header.Get("X-Serial") == purged {
					out.Violate("C18", "purged-entry-served", "%s: the entry (upstream answer #%s) was purged while clients kept asking for the key, the purge completed, and request %d afterwards is still answered with that purged response (X-Status %q)", what, purged, j, r.Header.Get("X-Status"))
					break
				}
			}
			purgeUnderTraffic++
		case "purge-during-fetch":
			// a slow fetch on a dedicated key with two waiters; the purge must return long before the fetch ends
			uri := fmt.Sprintf("/c18-%d/slow-%d", n, i)
			var wg sync.WaitGroup
			res := make([]*clientResp, 3)
			for j := 0; j < 3; j++ {
				wg.Add(1)
				go func(j int) {
					defer wg.Done()
					time.Sleep(time.Duration(j*15) * time.Millisecond)
					res[j] = do(c18Cl, reqSpec{Method: "GET", Addr: addrs[0], Host: host, URI: uri, Header: http.Header{"X-Spec": []string{slow}}})
				}(j)
			}
			time.Sleep(120 * time.Millisecond)
			q := url.Values{}
			q.Set("key", "GET "+host+" "+wireURI(uri))
			req, _ := http.NewRequest("DELETE", "http://"+c18Admin+"/cache?"+q.Encode(), nil)
			st := time.Now()
			resp, err := c18Cl.Do(req)
			took := time.Since(st)
			if err == nil {
				_, _ = io.Copy(io.Discard, resp.Body)
				resp.Body.Close()
			}
			wg.Wait()
			if err != nil {
				out.Violate("C18", "admin", "%s: %v", what, err)
			} else {
				// blocked = the purge only returned once the 1 s fetch had completed (a purge that does
				// not wait takes about a millisecond; the generous bound keeps machine load out of it)
				firstEnd := time.Time{}
				for _, r := range res {
					if r != nil && (firstEnd.IsZero() || r.End.Before(firstEnd)) {
						firstEnd = r.End
					}
				}
				if took > 800*time.Millisecond && !firstEnd.IsZero() && st.Add(took).After(firstEnd.Add(-50*time.Millisecond)) {
					out.Violate("C18", "purge-blocked", "%s: a purge racing an in-flight fetch took %s and returned only when the fetch had completed", what, took)
				}
			}
			for j, r := range res {
				if r == nil || r.Err != "" || r.Code != 200 || string(r.Body) != "body of "+slow {
					out.Violate("C18", "stranded", "%s: request %d of the fetch that was racing the purge did not complete correctly (%+v)", what, j, r)
				}
			}
			purgeDuringFetch++
			out.Class("purge_during_fetch_took_lt_300ms_" + fmt.Sprint(took < 300*time.Millisecond))
			_ = fmt.Sprint
		}
	}
	out.NonTrivial = purgedFresh > 0 && reqAfterPurge > 0 || purgeDuringFetch > 0 || purgeUnderTraffic > 0
	if purgeUnderTraffic > 0 {
		out.Class("purge_under_traffic_with_slow_store_delete")
	}
	if purgedFresh > 0 {
		out.Class("purged_fresh_entry")
	}
	if reqAfterPurge > 0 {
		out.Class("request_after_purge")
	}
	for i, h := range sc.Hosts {
		if h != strings.ToLower(h) {
			out.Class("key_with_upper_case_host")
		}
		for j := 0; j < i; j++ {
			if sc.Keys[i] == sc.Keys[j] && strings.EqualFold(h, sc.Hosts[j]) {
				out.Class("keys_differing_in_host_case_only")
			}
		}
	}
	return out
}

func TestC18Admin(t *testing.T) {
	vstat.Run(t, "C18", "netw", genC18e2e, execC18e2e)
}

// slowDeleteStore: an in-memory store whose Delete takes a while, like a remote store's
type slowDeleteStore struct {
	rtStore
	delay    time.Duration
	setDelay time.Duration
}

func (s *slowDeleteStore) Set(key []byte, data []byte, ttl time.Duration) error {
	if s.setDelay > 0 {
		time.Sleep(s.setDelay)
	}
	return s.rtStore.Set(key, data, ttl)
}

func (s *slowDeleteStore) Delete(key []byte) error {
	time.Sleep(s.delay)
	return s.rtStore.Delete(key)
}

// TestC10Admin: the admin histories on stores whose calls are slow, judged for C10 -- a store
// that takes its time over a delete or a write must not make pike answer with what was purged
func TestC10Admin(t *testing.T) {
	vstat.Run(t, "C10", "netw", func(t *rapid.T) c18Scenario {
		sc := genC18e2e(t)
		sc.Store = true
		return sc
	}, execC18e2e)
}
