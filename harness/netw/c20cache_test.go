//go:build verif

package netw

// C20 (entry level) — "the cached HTTPResponse shared by all hits must be
// immutable after publication" and "entry status/response read after wake-up
// is ordered only by the channel hand-off" (the two state anchors of C20),
// exercised directly on the cache package under the race detector: a burst of
// requests coalesces behind one fetch, the fetch completes with a generated
// (compressible or not) response, and every woken request does what the
// responder does with the response it was handed -- reads it and fills a
// context -- with nothing in between. What it was handed must be complete and
// must still be the same when a later hit looks at it.

import (
	"bytes"
	"fmt"
	"net/http"
	"net/http/httptest"
	"runtime"
	"sync"
	"sync/atomic"
	"testing"
	"time"

	"github.com/vicanso/elton"
	"github.com/vicanso/pike/cache"
	"github.com/vicanso/pike/compress"
	"pgregory.net/rapid"

	"verif/harness/internal/vstat"
)

type c20Cache struct {
	Workers   int    `json:"workers"`
	Rounds    int    `json:"rounds"`
	BodyLen   int    `json:"bodyLen"`
	Type      string `json:"type"`
	MinLength int    `json:"minLength"`
	UpEnc     string `json:"upEnc,omitempty"` // the upstream's Content-Encoding: "", gzip, br
	DelayUs   int    `json:"delayUs"`         // how long the fetch takes
	Store     bool   `json:"store,omitempty"`
}

func genC20Cache(t *rapid.T) c20Cache {
	return c20Cache{
		Workers:   rapid.IntRange(2, 12).Draw(t, "workers"),
		Rounds:    rapid.IntRange(10, 40).Draw(t, "rounds"),
		BodyLen:   rapid.SampledFrom([]int{200, 1500, 8000, 60000, 220000}).Draw(t, "bodyLen"),
		Type:      rapid.SampledFrom([]string{"application/json", "text/plain", "application/json", "image/png"}).Draw(t, "type"),
		MinLength: rapid.SampledFrom([]int{0, 1024, 1024, 4096}).Draw(t, "minLength"),
		UpEnc:     rapid.SampledFrom([]string{"", "", "", "gzip", "br"}).Draw(t, "upEnc"),
		DelayUs:   rapid.SampledFrom([]int{0, 200, 2000}).Draw(t, "delayUs"),
	}
}

type c20Snap struct {
	raw, gz, br int
	srv         string
	status      int
}

func c20SnapOf(r *cache.HTTPResponse) c20Snap {
	return c20Snap{len(r.RawBody), len(r.GzipBody), len(r.BrBody), r.CompressSrv, r.StatusCode}
}

var (
	c20cSeq int64
	c20cAEs = []string{"", "gzip", "br", "gzip, br", "identity"}
)

func execC20Cache(sc c20Cache) *vstat.Outcome {
	out := &vstat.Outcome{}
	d := cache.NewDispatcher(cache.DispatcherOption{Name: "c20cache-entry", Size: 1000})
	seq := atomic.AddInt64(&c20cSeq, 1)
	svc := compress.NewService()
	coalesced := 0
	var mu sync.Mutex
	viol := func(oracle, format string, args ...interface{}) {
		mu.Lock()
		defer mu.Unlock()
		if len(out.Violations) < 10 {
			out.Violate("C20", oracle, format, args...)
		}
	}
	for r := 0; r < sc.Rounds; r++ {
		key := fmt.Sprintf("GET c20c.test /e/%d/%d", seq, r)
		body := genBytes(sc.BodyLen, "text", uint32(seq)*1000+uint32(r))
		wire := body
		switch sc.UpEnc {
		case "gzip":
			wire, _ = svc.Gzip(body)
		case "br":
			wire, _ = svc.Brotli(body)
		}
		type seen struct {
			snap   c20Snap
			resp   *cache.HTTPResponse
			waited bool
		}
		res := make([]*seen, sc.Workers)
		var start, done sync.WaitGroup
		start.Add(1)
		var registered int64
		for w := 0; w < sc.Workers; w++ {
			done.Add(1)
			go func(w int) {
				defer done.Done()
				start.Wait()
				hc := d.GetHTTPCache([]byte(key))
				atomic.AddInt64(&registered, 1)
				status, resp := hc.Get()
				switch status {
				case cache.StatusFetching:
					// let the others arrive, then complete the fetch the way the proxy does
					for i := 0; i < 200 && atomic.LoadInt64(&registered) < int64(sc.Workers); i++ {
						runtime.Gosched()
					}
					if sc.DelayUs > 0 {
						time.Sleep(time.Duration(sc.DelayUs) * time.Microsecond)
					}
					h := http.Header{"Content-Type": []string{sc.Type}, "X-Key": []string{key}}
					nr, err := cache.NewHTTPResponse(200, h, sc.UpEnc, append([]byte{}, wire...))
					if err != nil {
						viol("harness", "NewHTTPResponse: %v", err)
						hc.HitForPass(1)
						return
					}
					nr.CompressMinLength = sc.MinLength
					hc.Cacheable(nr, 60)
				case cache.StatusHit:
					if resp == nil {
						viol("nil-response", "round %d worker %d: hit without a response", r, w)
						return
					}
					// exactly what the responder does next: read the response, fill a context
					s := &seen{snap: c20SnapOf(resp), resp: resp, waited: true}
					res[w] = s
					ae := c20cAEs[(w+r)%len(c20cAEs)]
					req := httptest.NewRequest("GET", "/", nil)
					if ae != "" {
						req.Header.Set("Accept-Encoding", ae)
					}
					c := elton.NewContext(httptest.NewRecorder(), req)
					if err := resp.Fill(c); err != nil {
						viol("fill", "round %d worker %d (AE %q): %v", r, w, ae, err)
						return
					}
					got := c.BodyBuffer.Bytes()
					ce := c.GetHeader("Content-Encoding")
					if ce != "" && !aeTokens(ae)[ce] {
						viol("unacceptable-encoding", "round %d worker %d: Accept-Encoding %q, Content-Encoding %q", r, w, ae, ce)
					}
					if ce != "" {
						dec, err := svc.Decompress(ce, got)
						if err != nil {
							viol("decode", "round %d worker %d (CE %q): %v", r, w, ce, err)
							return
						}
						got = dec
					}
					if !bytes.Equal(got, body) {
						viol("body", "round %d worker %d (AE %q, CE %q): a request woken by the completed fetch was answered with %d bytes, the upstream produced %d", r, w, ae, ce, len(got), len(body))
					}
				default:
					viol("status", "round %d worker %d: status %v on a key whose fetch is cacheable", r, w, status)
				}
			}(w)
		}
		start.Done()
		done.Wait()
		// what a later hit sees
		status, final := d.GetHTTPCache([]byte(key)).Get()
		if status != cache.StatusHit || final == nil {
			viol("later-hit", "round %d: a later request got status %v", r, status)
			continue
		}
		fs := c20SnapOf(final)
		n := 0
		for w, s := range res {
			if s == nil {
				continue
			}
			n++
			if s.resp != final {
				viol("another-response", "round %d worker %d: was handed another response object than the one published", r, w)
			}
			if s.snap != fs {
				viol("altered-after-publication", "round %d worker %d: the response handed to a woken request was (raw %d, gzip %d, br %d, compress %q); a later hit finds (raw %d, gzip %d, br %d, compress %q): it was modified after it had been published", r, w,
					s.snap.raw, s.snap.gz, s.snap.br, s.snap.srv, fs.raw, fs.gz, fs.br, fs.srv)
			}
		}
		if n > 0 {
			coalesced++
		}
	}
	for sig, n := range readRaceReports() {
		if len(sig) >= 12 && sig[:12] == "harness-only" {
			out.Class("harness_only_race_report")
			continue
		}
		viol("data-race", "%d race-detector report(s), first pike/elton frame: %s", n, sig)
	}
	out.NonTrivial = coalesced > 0
	out.Evals = sc.Rounds
	if sc.BodyLen > sc.MinLength && sc.Type != "image/png" {
		out.Class("compressed_on_store")
	}
	if sc.UpEnc != "" {
		out.Class("upstream_" + sc.UpEnc)
	}
	return out
}

func TestC20Cache(t *testing.T) {
	vstat.Run(t, "C20", "netw", genC20Cache, execC20Cache)
}
