//go:build verif

package netw

// C15 — requests and responses cross the proxy with only the configured changes.

import (
	"bytes"
	"fmt"
	"net/http"
	"net/url"
	"regexp"
	"sort"
	"strings"
	"sync"
	"testing"
	"time"

	"github.com/vicanso/pike/config"
	"pgregory.net/rapid"

	"verif/harness/internal/vstat"
)

type c15Req struct {
	Method  string      `json:"method"`
	Key     int         `json:"key"` // 0 cacheable, 1 uncacheable, 2 uncacheable for the first answer and cacheable afterwards
	Tail    string      `json:"tail"`
	Query   string      `json:"query,omitempty"`
	Headers [][2]string `json:"headers,omitempty"`
	BodyLen int         `json:"bodyLen,omitempty"`
	Cond    string      `json:"cond,omitempty"`
	AE      string      `json:"ae,omitempty"` // "-" absent
	Groups  []string    `json:"groups,omitempty"` // generated rules: what the wildcards of the first rule stand for in this request
	NoMatch bool        `json:"noMatch,omitempty"` // generated rules: a path no rule is built for
}

// c15Rule: a rewrite rule of the documented form "pattern:value" -- the pattern is a path whose
// segments are literals or the wildcard *, the value a path made of literals and $n tokens
type c15Rule struct {
	Anchor bool     `json:"anchor,omitempty"`
	Segs   []string `json:"segs"`   // "*" is the wildcard
	Value  []c15Tok `json:"value"`  // concatenated
}

type c15Tok struct {
	Lit   string `json:"lit,omitempty"`
	Group int    `json:"group,omitempty"` // 1-based, 0 => literal
}

func (r c15Rule) pattern() string {
	p := "/" + strings.Join(r.Segs, "/")
	if r.Anchor {
		p = "^" + p
	}
	return p
}

func (r c15Rule) value() string {
	var sb strings.Builder
	for _, t := range r.Value {
		if t.Group > 0 {
			fmt.Fprintf(&sb, "$%d", t.Group)
		} else {
			sb.WriteString(t.Lit)
		}
	}
	return sb.String()
}

func (r c15Rule) String() string { return r.pattern() + ":" + r.value() }

// c15Rewrite: the reference -- the rules are tried in order on the (decoded) path; a rule whose
// pattern (each * standing for any run of characters) matches replaces the path by its value
// with every $n standing for what the n-th * matched. The substitution is done on the token
// list, not on the text of the value.
func c15Rewrite(rules []c15Rule, rawPath string) string {
	p, err := url.PathUnescape(rawPath)
	if err != nil {
		return rawPath
	}
	changed := false
	for _, r := range rules {
		re := regexp.MustCompile(strings.ReplaceAll(r.pattern(), "*", "(.*)"))
		m := re.FindStringSubmatch(p)
		if m == nil {
			continue
		}
		var sb strings.Builder
		for _, t := range r.Value {
			if t.Group > 0 {
				if t.Group < len(m) {
					sb.WriteString(m[t.Group])
				} else {
					fmt.Fprintf(&sb, "$%d", t.Group)
				}
			} else {
				sb.WriteString(t.Lit)
			}
		}
		p = sb.String()
		changed = true
	}
	if !changed {
		return rawPath
	}
	return (&url.URL{Path: p}).EscapedPath()
}

func genC15Rule(t *rapid.T, label string) c15Rule {
	r := c15Rule{Anchor: rapid.Bool().Draw(t, label+"Anchor")}
	lits := []string{"files", "img", "rest", "user", "v1", "static"}
	r.Segs = []string{rapid.SampledFrom(lits).Draw(t, label+"Lit0")}
	k := rapid.IntRange(1, 3).Draw(t, label+"K")
	for i := 0; i < k; i++ {
		if i > 0 && rapid.IntRange(0, 2).Draw(t, label+"Mid") == 0 {
			r.Segs = append(r.Segs, rapid.SampledFrom(lits).Draw(t, label+"Lit"))
		}
		r.Segs = append(r.Segs, "*")
	}
	r.Value = []c15Tok{{Lit: "/" + rapid.SampledFrom([]string{"", "store/", "resize/", "v", "api/v2/"}).Draw(t, label+"Head")}}
	n := rapid.IntRange(1, k+1).Draw(t, label+"NTok")
	for i := 0; i < n; i++ {
		if i > 0 {
			// what stands between two tokens: nothing that starts with a digit ($1 followed by 0 would read $10)
			r.Value = append(r.Value, c15Tok{Lit: rapid.SampledFrom([]string{"/", "/", "-", "_", "x", ".", "", "/by/", "~"}).Draw(t, label+"Sep")})
		}
		r.Value = append(r.Value, c15Tok{Group: rapid.IntRange(1, k).Draw(t, label+"Group")})
	}
	if tail := rapid.SampledFrom([]string{"", "", "/end", "_t", "beta", ".json", "-x/y"}).Draw(t, label+"Tail"); tail != "" {
		r.Value = append(r.Value, c15Tok{Lit: tail})
	}
	return r
}

type c15Scenario struct {
	Rewrite  int         `json:"rewrite"` // 0 none, 1 /api/*:/$1, 2 /rest/*/user/*:/$1/$2, 3 generated rules
	Rules    []c15Rule   `json:"rules,omitempty"`
	AddReq   [][2]string `json:"addReq,omitempty"`
	AddResp  [][2]string `json:"addResp,omitempty"`
	AddQuery [][2]string `json:"addQuery,omitempty"`
	UpAE     string      `json:"upAE,omitempty"`
	Reqs     []c15Req    `json:"reqs"`
}

var (
	c15Once sync.Once
	c15Up   *upstreamSrv
	c15Seq  int
	c15Cl   *http.Client
)

const c15Addr = "127.0.0.2:0"

var c15ModTime = time.Date(2020, 5, 1, 12, 0, 0, 0, time.UTC)

func genC15(t *rapid.T) c15Scenario {
	sc := c15Scenario{Rewrite: rapid.SampledFrom([]int{0, 1, 2, 3, 3, 3}).Draw(t, "rewrite")}
	if sc.Rewrite == 3 {
		sc.Rules = []c15Rule{genC15Rule(t, "rule0")}
		if rapid.IntRange(0, 3).Draw(t, "twoRules") == 0 {
			sc.Rules = append(sc.Rules, genC15Rule(t, "rule1"))
		}
	}
	pairs := func(label string, pool [][2]string) [][2]string {
		n := rapid.IntRange(0, 3).Draw(t, label+"N")
		var res [][2]string
		for i := 0; i < n; i++ {
			res = append(res, pool[rapid.IntRange(0, len(pool)-1).Draw(t, label)])
		}
		return res
	}
	sc.AddReq = pairs("addReq", [][2]string{{"X-Added", "1"}, {"X-Added", "two"}, {"X-From-Pike", "yes"}, {"X-C-0", "added-to-client-header"}})
	sc.AddResp = pairs("addResp", [][2]string{{"X-Resp-Added", "1"}, {"X-Resp-Added", "2"}, {"X-Served-By", "pike"}})
	sc.AddQuery = pairs("addQuery", [][2]string{{"added", "1"}, {"added", "2"}, {"src", "pike"}, {"a", "dup"}})
	sc.UpAE = rapid.SampledFrom([]string{"", "", "gzip", "gzip, br"}).Draw(t, "upAE")
	n := rapid.IntRange(2, 7).Draw(t, "nReqs")
	// the last ones carry escapes a re-encoding would change (an escaped slash, lower-case hex, an escaped semicolon)
	tails := []string{"x", "item/42", "a-b_c.d~e", "sp%20ace", "u%E2%9C%93", "deep/er/path", "x", "2020%2F09/report", "semi%3Bcolon", "lower%2fhex"}
	queries := []string{"", "a=1", "a=1&b=2", "b=2&a=1", "a=1&a=2", "empty=", "enc=%E2%9C%93%20x", "k", "a=1&&b", "z=%2F%3F"}
	for i := 0; i < n; i++ {
		r := c15Req{Key: rapid.IntRange(0, 2).Draw(t, "key")}
		r.Method = rapid.SampledFrom([]string{"GET", "GET", "GET", "GET", "HEAD", "POST", "PUT", "PATCH", "DELETE", "OPTIONS"}).Draw(t, "method")
		r.Tail = rapid.SampledFrom(tails).Draw(t, "tail")
		if sc.Rewrite == 3 {
			vals := []string{"2020", "report", "640", "480", "cat.png", "a-b", "x_y", "v1", "sp%20ace", "u%E2%9C%93", "seg/ment"}
			for range sc.Rules[0].Segs {
				r.Groups = append(r.Groups, rapid.SampledFrom(vals).Draw(t, "groupVal"))
			}
			r.NoMatch = rapid.IntRange(0, 7).Draw(t, "noMatch") == 0
		}
		r.Query = rapid.SampledFrom(queries).Draw(t, "query")
		nh := rapid.IntRange(0, 5).Draw(t, "nHeaders")
		for j := 0; j < nh; j++ {
			r.Headers = append(r.Headers, [2]string{fmt.Sprintf("X-C-%d", rapid.IntRange(0, 3).Draw(t, "hn")), rapid.SampledFrom([]string{"v", "v1, v2", "MiXed", "with space", "utf8-é"}).Draw(t, "hv")})
		}
		switch r.Method {
		case "POST", "PUT", "PATCH", "DELETE":
			r.BodyLen = rapid.SampledFrom([]int{0, 1, 100, 5000, 65536}).Draw(t, "bodyLen")
		case "GET":
			r.Cond = rapid.SampledFrom([]string{"", "", "", "inm-match", "inm-miss", "inm-star", "ims-after", "ims-before", "range-prefix", "range-suffix", "range-open"}).Draw(t, "cond")
		case "HEAD":
			// HEAD has entries of its own and is stored like GET
			r.Cond = rapid.SampledFrom([]string{"", "", "inm-match", "inm-star", "ims-after", "inm-miss", "range-prefix"}).Draw(t, "cond")
		}
		r.AE = rapid.SampledFrom([]string{"-", "gzip", "br", "gzip, br", "identity"}).Draw(t, "ae")
		sc.Reqs = append(sc.Reqs, r)
	}
	return sc
}

func c15Path(sc c15Scenario, r c15Req, suffix string) (clientPath, upstreamPath string) {
	rewrite, tail := sc.Rewrite, r.Tail
	if rewrite == 3 {
		if r.NoMatch {
			clientPath = "/plain/" + tail + suffix
		} else {
			for i, seg := range sc.Rules[0].Segs {
				if seg == "*" {
					seg = r.Groups[i%len(r.Groups)]
				}
				clientPath += "/" + seg
			}
			clientPath += suffix
		}
		return clientPath, c15Rewrite(sc.Rules, clientPath)
	}
	clientPath, _ = c15PathFixed(rewrite, tail)
	clientPath += suffix
	// the documented example rules, judged by the same reference as the generated ones
	switch rewrite {
	case 1:
		return clientPath, c15Rewrite([]c15Rule{{Segs: []string{"api", "*"}, Value: []c15Tok{{Lit: "/"}, {Group: 1}}}}, clientPath)
	case 2:
		return clientPath, c15Rewrite([]c15Rule{{Segs: []string{"rest", "*", "user", "*"}, Value: []c15Tok{{Lit: "/"}, {Group: 1}, {Lit: "/"}, {Group: 2}}}}, clientPath)
	}
	return clientPath, clientPath
}

func c15PathFixed(rewrite int, tail string) (clientPath, upstreamPath string) {
	switch rewrite {
	case 1:
		return "/api/" + tail, "/" + tail
	case 2:
		return "/rest/seg/user/" + tail, "/seg/" + tail
	}
	return "/plain/" + tail, "/plain/" + tail
}

func joinPairs(p [][2]string) []string {
	var res []string
	for _, kv := range p {
		res = append(res, kv[0]+":"+kv[1])
	}
	return res
}

func execC15(sc c15Scenario) *vstat.Outcome {
	out := &vstat.Outcome{}
	c15Once.Do(func() {
		c15Up = newUpstream("c15")
		c15Cl = newClient()
	})
	c15Seq++
	n := c15Seq
	loc := config.LocationConfig{Name: "c15loc", Upstream: "c15up", ReqHeaders: joinPairs(sc.AddReq), RespHeaders: joinPairs(sc.AddResp), QueryStrings: joinPairs(sc.AddQuery)}
	switch sc.Rewrite {
	case 1:
		loc.Rewrites = []string{"/api/*:/$1"}
	case 2:
		loc.Rewrites = []string{"/rest/*/user/*:/$1/$2"}
	case 3:
		for _, r := range sc.Rules {
			loc.Rewrites = append(loc.Rewrites, r.String())
		}
	}
	cacheName := fmt.Sprintf("c15-%d", n)
	cfg := &config.PikeConfig{
		Caches:    []config.CacheConfig{{Name: cacheName, Size: 1000, HitForPass: "5m"}},
		Upstreams: []config.UpstreamConfig{{Name: "c15up", AcceptEncoding: sc.UpAE, Servers: []config.UpstreamServerConfig{{Addr: c15Up.URL()}}}},
		Locations: []config.LocationConfig{loc},
		Servers:   []config.ServerConfig{{Addr: c15Addr, Locations: []string{"c15loc"}, Cache: cacheName, CompressMinLength: "1mb"}},
	}
	if err := applyConfig(cfg); err != nil {
		out.Inconclusive = true
		return out
	}
	addr := listenAddr(c15Addr)
	full := genBytes(700, "text", uint32(n))
	// an upstream that honours the Accept-Encoding pike is configured to send: its answers come
	// gzip-encoded (only in scenarios without Range requests -- a range of an encoded body is
	// another resource); the client still receives the upstream's response, decoded or not as it asked
	upEnc := ""
	if sc.UpAE != "" {
		upEnc = "gzip"
		for _, r := range sc.Reqs {
			if strings.HasPrefix(r.Cond, "range") {
				upEnc = ""
			}
		}
	}
	specs := [3]string{fmt.Sprintf("c15-%d-c", n), fmt.Sprintf("c15-%d-u", n), fmt.Sprintf("c15-%d-l", n)}
	c15Up.setSpec(specs[0], &respSpec{Status: 200, Headers: [][2]string{{"Cache-Control", "max-age=300"}, {"Content-Type", "text/plain"}, {"X-Up-Header", "u1"}, {"X-Resp-Added", "from-upstream"}}, Body: full, ETag: `"v1"`, ModTime: c15ModTime, Encoding: upEnc})
	c15Up.setSpec(specs[1], &respSpec{Status: 200, Headers: [][2]string{{"Content-Type", "text/plain"}, {"X-Up-Header", "u2"}}, Body: full, ETag: `"v1"`, ModTime: c15ModTime, Encoding: upEnc})
	c15Up.setSpec(specs[2], &respSpec{Status: 200, Headers: [][2]string{{"Cache-Control", "max-age=300"}, {"Content-Type", "text/plain"}, {"X-Up-Header", "u3"}}, Body: full, ETag: `"v1"`, ModTime: c15ModTime, Encoding: upEnc,
		DropFirst: 1, DropFirstNames: []string{"Cache-Control"}})
	defer func() {
		c15Up.mu.Lock()
		delete(c15Up.specs, specs[0])
		delete(c15Up.specs, specs[1])
		delete(c15Up.specs, specs[2])
		c15Up.logs = nil
		c15Up.mu.Unlock()
	}()
	features := 0
	if sc.Rewrite != 0 {
		features++
	}
	if len(sc.AddReq) > 0 {
		features++
	}
	if len(sc.AddQuery) > 0 {
		features++
	}
	if sc.UpAE != "" {
		features++
	}
	condSeen := false
	usedURIs := map[string]int{} // client uri -> key kind

	for i, r := range sc.Reqs {
		// keys: the key kind is part of the path so that the two specs never share a cache key
		cpath, upath := c15Path(sc, r, fmt.Sprintf("/k%d-%d", r.Key, n))
		uri := cpath
		if r.Query != "" {
			uri += "?" + r.Query
		}
		h := http.Header{"X-Spec": []string{specs[r.Key]}}
		for _, kv := range r.Headers {
			h.Add(kv[0], kv[1])
		}
		if r.AE != "-" {
			h.Set("Accept-Encoding", r.AE)
		}
		switch r.Cond {
		case "inm-match":
			h.Set("If-None-Match", `"v1"`)
		case "inm-miss":
			h.Set("If-None-Match", `"other"`)
		case "inm-star":
			h.Set("If-None-Match", "*")
		case "ims-after":
			h.Set("If-Modified-Since", c15ModTime.Add(time.Hour).Format(http.TimeFormat))
		case "ims-before":
			h.Set("If-Modified-Since", c15ModTime.Add(-time.Hour).Format(http.TimeFormat))
		case "range-prefix":
			h.Set("Range", "bytes=0-3")
		case "range-suffix":
			h.Set("Range", "bytes=-5")
		case "range-open":
			h.Set("Range", "bytes=100-")
		}
		if r.Cond != "" {
			condSeen = true
		}
		var body []byte
		if r.BodyLen > 0 {
			body = genBytes(r.BodyLen, "random", uint32(i+n))
		}
		resp := do(c15Cl, reqSpec{Method: r.Method, Addr: addr, Host: "c15.test", URI: uri, Header: h, Body: body})
		what := fmt.Sprintf("request %d (%s %s cond=%q)", i, r.Method, uri, r.Cond)
		if resp.Err != "" {
			out.Violate("C15", "transport", "%s: %s", what, resp.Err)
			continue
		}
		if r.Method == "GET" {
			usedURIs[uri] = r.Key
		}
		logs := c15Up.logsFor(func(l *upLog) bool { return l.ReqID == resp.ReqID })
		xs := resp.Header.Get("X-Status")
		if xs == "hit" {
			if len(logs) != 0 {
				out.Violate("C03", "label", "%s labelled hit but reached the upstream", what)
			}
		} else {
			if len(logs) != 1 {
				out.Violate("C15", "forwarded-once", "%s (X-Status %q, status %d) reached the upstream %d times", what, xs, resp.Code, len(logs))
				continue
			}
			l := logs[0]
			if l.Method != r.Method {
				out.Violate("C15", "method", "%s: the upstream saw method %s", what, l.Method)
			}
			if !bytes.Equal(l.Body, body) {
				out.Violate("C15", "body", "%s: the upstream received a %d-byte body, the client sent %d bytes", what, len(l.Body), len(body))
			}
			gotPath, gotQuery := l.URI, ""
			if j := strings.IndexByte(l.URI, '?'); j >= 0 {
				gotPath, gotQuery = l.URI[:j], l.URI[j+1:]
			}
			if gotPath != upath {
				out.Violate("C15", "path", "%s: the upstream saw path %q, expected %q (rewrite rule %d %v)", what, gotPath, upath, sc.Rewrite, loc.Rewrites)
			}
			if len(sc.AddQuery) == 0 {
				if gotQuery != r.Query {
					out.Violate("C15", "query", "%s: the upstream saw query %q, the client sent %q and nothing is configured to be added", what, gotQuery, r.Query)
				}
			} else {
				want, _ := url.ParseQuery(r.Query)
				for _, kv := range sc.AddQuery {
					want.Add(kv[0], kv[1])
				}
				got, _ := url.ParseQuery(gotQuery)
				if !sameMultiset(want, got) {
					out.Violate("C15", "query", "%s: the upstream saw query %q; expected the client's pairs %q plus %v", what, gotQuery, r.Query, sc.AddQuery)
				}
			}
			// headers: client's end-to-end headers plus the added ones
			want := http.Header{}
			for _, kv := range r.Headers {
				want.Add(kv[0], kv[1])
			}
			for _, kv := range sc.AddReq {
				want.Add(kv[0], kv[1])
			}
			for name, vals := range want {
				if got := l.Header.Values(name); !equalStrings(got, vals) {
					out.Violate("C15", "request-headers", "%s: the upstream saw %s=%q, expected %q (client values then added values)", what, name, got, vals)
				}
			}
			gotAE := l.Header.Get("Accept-Encoding")
			switch {
			case sc.UpAE != "":
				if gotAE != sc.UpAE {
					out.Violate("C15", "accept-encoding", "%s: the upstream saw Accept-Encoding %q, the upstream is configured with %q", what, gotAE, sc.UpAE)
				}
			case r.AE == "-":
				if gotAE != "" && gotAE != "gzip" {
					out.Violate("C15", "accept-encoding", "%s: the client sent no Accept-Encoding, the upstream saw %q", what, gotAE)
				}
			default:
				if gotAE != r.AE {
					out.Violate("C15", "accept-encoding", "%s: the upstream saw Accept-Encoding %q, the client sent %q", what, gotAE, r.AE)
				}
			}
			// conditional headers are withheld only on a cold cacheable fetch
			if xs == "fetching" {
				if l.Header.Get("If-None-Match") != "" || l.Header.Get("If-Modified-Since") != "" || l.Header.Get("Range") != "" {
					out.Violate("C15", "conditional-forwarded", "%s: a fetching request forwarded its conditional / Range headers to the upstream (If-None-Match %q, If-Modified-Since %q, Range %q)", what, l.Header.Get("If-None-Match"), l.Header.Get("If-Modified-Since"), l.Header.Get("Range"))
				}
			} else if r.Cond != "" && strings.HasPrefix(r.Cond, "i") {
				if l.Header.Get("If-None-Match") == "" && l.Header.Get("If-Modified-Since") == "" {
					out.Violate("C15", "conditional-dropped", "%s (X-Status %q): the conditional header did not reach the upstream", what, xs)
				}
			} else if strings.HasPrefix(r.Cond, "range") {
				// hit-for-pass and passed requests: the Range header is the client's business with the upstream
				if l.Header.Get("Range") == "" {
					out.Violate("C15", "range-dropped", "%s (X-Status %q): the client's Range header did not reach the upstream although the request is not a cold cacheable fetch", what, xs)
				}
			}
		}
		// response side
		validatorMatches := r.Cond == "inm-match" || r.Cond == "inm-star" || r.Cond == "ims-after"
		if r.Method == "GET" {
			switch {
			case validatorMatches:
				if resp.Code != 304 {
					out.Violate("C15", "not-modified", "%s: the client's validator matches but it received status %d (X-Status %q)", what, resp.Code, xs)
				}
			case strings.HasPrefix(r.Cond, "range"):
				switch resp.Code {
				case 200:
					if !bytes.Equal(resp.Body, full) {
						out.Violate("C15", "range-body", "%s: status 200 but the body is not the full resource (%d bytes)", what, len(resp.Body))
					}
				case 206:
					if !bytes.Equal(resp.Body, rangeOf(full, r.Cond)) {
						out.Violate("C15", "range-body", "%s: status 206 but the body is not the requested range (%d bytes)", what, len(resp.Body))
					}
				default:
					out.Violate("C15", "range-status", "%s: status %d", what, resp.Code)
				}
			default:
				if resp.Code != 200 || !bytes.Equal(resp.Body, full) {
					out.Violate("C15", "plain-get", "%s: expected the full 200 resource, got status %d with %d bytes (X-Status %q, Content-Range %q)", what, resp.Code, len(resp.Body), xs, resp.Header.Get("Content-Range"))
				}
			}
		}
		if r.Method == "HEAD" && r.Cond == "" && resp.Code != 200 {
			out.Violate("C15", "plain-head", "%s: a HEAD without validators or Range got status %d (X-Status %q): an answer provoked by another client's conditional headers was stored", what, resp.Code, xs)
		}
		if r.Method == "HEAD" && r.Cond != "" {
			condSeen = true
		}
		if resp.Code < 400 {
			for _, name := range []string{"X-Resp-Added", "X-Served-By"} {
				var want []string
				if r.Key == 0 && name == "X-Resp-Added" {
					want = append(want, "from-upstream")
				}
				for _, kv := range sc.AddResp {
					if kv[0] == name {
						want = append(want, kv[1])
					}
				}
				if got := resp.Header.Values(name); !equalStrings(got, want) {
					out.Violate("C15", "response-headers", "%s: response header %s=%q, expected %q (upstream value then configured values)", what, name, got, want)
				}
			}
			wantUp := []string{"u1", "u2", "u3"}[r.Key]
			if got := resp.Header.Get("X-Up-Header"); got != wantUp {
				out.Violate("C15", "response-headers", "%s: upstream header X-Up-Header=%q, expected %q", what, got, wantUp)
			}
		}
	}
	// finally: a plain GET by another client on every GET key must give the full resource
	other := newClient()
	uris := make([]string, 0, len(usedURIs))
	for u := range usedURIs {
		uris = append(uris, u)
	}
	sort.Strings(uris)
	for _, u := range uris {
		resp := do(other, reqSpec{Method: "GET", Addr: addr, Host: "c15.test", URI: u, Header: http.Header{"X-Spec": []string{specs[usedURIs[u]]}}})
		if resp.Err != "" {
			out.Violate("C15", "transport", "final GET %s: %s", u, resp.Err)
			continue
		}
		if resp.Code != 200 || !bytes.Equal(resp.Body, full) {
			out.Violate("C15", "stored-partial", "a plain GET %s by another client received status %d with %d bytes (X-Status %q, Content-Range %q): a 304/206 answer provoked by an earlier client was replayed", u, resp.Code, len(resp.Body), resp.Header.Get("X-Status"), resp.Header.Get("Content-Range"))
		}
	}
	other.CloseIdleConnections()
	if condSeen {
		features++
		out.Class("conditional_or_range")
	}
	out.NonTrivial = features >= 2
	out.Class(fmt.Sprintf("rewrite_%d", sc.Rewrite))
	return out
}

func rangeOf(full []byte, cond string) []byte {
	switch cond {
	case "range-prefix":
		return full[0:4]
	case "range-suffix":
		return full[len(full)-5:]
	default:
		return full[100:]
	}
}

func equalStrings(a, b []string) bool {
	if len(a) != len(b) {
		return false
	}
	for i := range a {
		if a[i] != b[i] {
			return false
		}
	}
	return true
}

func sameMultiset(a, b url.Values) bool {
	if len(a) != len(b) {
		return false
	}
	for k, va := range a {
		vb := b[k]
		if !equalStrings(sortedCopy(va), sortedCopy(vb)) {
			return false
		}
	}
	return true
}

func TestC15(t *testing.T) {
	vstat.Run(t, "C15", "netw", genC15, execC15)
}
