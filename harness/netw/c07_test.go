//go:build verif

package netw

// C07 (real transport) — "every request for that key during the hit-for-pass
// period is forwarded to the upstream immediately and independently ... never
// queued behind another request": a burst larger than any connection-pool size
// one might configure, against an origin that answers only once the whole
// burst has arrived (or after a grace time).

import (
	"fmt"
	"net/http"
	"sync"
	"sync/atomic"
	"testing"
	"time"

	"github.com/vicanso/pike/config"
	"pgregory.net/rapid"

	"verif/harness/internal/vstat"
)

type c07Burst struct {
	N      int  `json:"n"`      // concurrent requests in the burst
	Keys   int  `json:"keys"`   // spread over this many hit-for-pass keys
	Post   bool `json:"post"`   // POST (always passed) instead of GET on a hit-for-pass key
}

var (
	c07bOnce sync.Once
	c07bUp   *upstreamSrv
	c07bSeq  int
	c07bWant int64
	c07bHere int64
	c07bMax  int64
)

const c07bAddr = "127.0.0.11:0"

func genC07Burst(t *rapid.T) c07Burst {
	return c07Burst{N: rapid.SampledFrom([]int{40, 64, 96, 130}).Draw(t, "n"), Keys: rapid.SampledFrom([]int{1, 1, 3}).Draw(t, "keys"), Post: rapid.IntRange(0, 3).Draw(t, "post") == 0}
}

func c07bHandler(w http.ResponseWriter, r *http.Request) {
	if r.URL.Query().Get("hold") == "" {
		w.Header().Set("Content-Type", "text/plain")
		w.WriteHeader(200)
		_, _ = w.Write([]byte("ok"))
		return
	}
	// c07bHere = requests inside this handler right now
	n := atomic.AddInt64(&c07bHere, 1)
	defer atomic.AddInt64(&c07bHere, -1)
	for {
		m := atomic.LoadInt64(&c07bMax)
		if n <= m || atomic.CompareAndSwapInt64(&c07bMax, m, n) {
			break
		}
	}
	// answer once the whole burst is here at the same time, or after a grace time
	deadline := time.Now().Add(10 * time.Second)
	for atomic.LoadInt64(&c07bMax) < atomic.LoadInt64(&c07bWant) && time.Now().Before(deadline) {
		time.Sleep(2 * time.Millisecond)
	}
	w.Header().Set("Content-Type", "text/plain")
	w.WriteHeader(200)
	_, _ = w.Write([]byte("ok"))
}

func execC07Burst(sc c07Burst) *vstat.Outcome {
	out := &vstat.Outcome{}
	c07bOnce.Do(func() {
		c07bUp = newUpstream("c07b")
		c07bUp.mu.Lock()
		c07bUp.custom = c07bHandler
		c07bUp.mu.Unlock()
	})
	c07bSeq++
	n := c07bSeq
	name := fmt.Sprintf("c07b-%d", n)
	cfg := &config.PikeConfig{
		Caches:    []config.CacheConfig{{Name: name, Size: 100, HitForPass: "5m"}},
		Upstreams: []config.UpstreamConfig{{Name: "c07bup", Servers: []config.UpstreamServerConfig{{Addr: c07bUp.URL()}}}},
		Locations: []config.LocationConfig{{Name: "c07bloc", Upstream: "c07bup"}},
		Servers:   []config.ServerConfig{{Addr: c07bAddr, Locations: []string{"c07bloc"}, Cache: name}},
	}
	if err := applyConfig(cfg); err != nil {
		out.Inconclusive = true
		return out
	}
	addr := listenAddr(c07bAddr)
	tr := &http.Transport{DisableCompression: true, MaxIdleConnsPerHost: 256}
	cl := &http.Client{Transport: tr, Timeout: 45 * time.Second}
	defer tr.CloseIdleConnections()
	// the keys become hit-for-pass (their answers carry no Cache-Control)
	atomic.StoreInt64(&c07bWant, 0)
	for k := 0; k < sc.Keys; k++ {
		r := do(cl, reqSpec{Method: "GET", Addr: addr, Host: "c07b.test", URI: fmt.Sprintf("/c07b/%d/k%d?hold=1", n, k)})
		if r.Err != "" || r.Code != 200 {
			out.Inconclusive = true
			return out
		}
	}
	atomic.StoreInt64(&c07bHere, 0)
	atomic.StoreInt64(&c07bMax, 0)
	atomic.StoreInt64(&c07bWant, int64(sc.N))
	var wg sync.WaitGroup
	var failed int64
	labels := make([]string, sc.N)
	start := time.Now()
	for i := 0; i < sc.N; i++ {
		wg.Add(1)
		go func(i int) {
			defer wg.Done()
			method := "GET"
			if sc.Post {
				method = "POST"
			}
			r := do(cl, reqSpec{Method: method, Addr: addr, Host: "c07b.test", URI: fmt.Sprintf("/c07b/%d/k%d?hold=1", n, i%sc.Keys), Body: []byte("x")})
			if r.Err != "" || r.Code != 200 {
				atomic.AddInt64(&failed, 1)
				return
			}
			labels[i] = r.Header.Get("X-Status")
		}(i)
	}
	wg.Wait()
	took := time.Since(start)
	together := atomic.LoadInt64(&c07bMax)
	if failed > 0 {
		out.Violate("C07", "burst-failed", "%d of %d requests of the burst failed", failed, sc.N)
	}
	if together < int64(sc.N) {
		out.Violate("C07", "queued-in-hfp", "a burst of %d requests on %d key(s) that are passed through (method %v, hit-for-pass): at most %d were at the upstream together although it waited %s for all of them -- the others were queued inside pike", sc.N, sc.Keys, map[bool]string{true: "POST", false: "GET"}[sc.Post], together, took.Round(time.Millisecond))
	}
	for i, l := range labels {
		if l != "" && l != "hitForPass" && l != "passed" {
			out.Violate("C07", "label", "request %d of the burst is labelled %q", i, l)
			break
		}
	}
	out.NonTrivial = true
	out.Evals = sc.N
	out.Class(fmt.Sprintf("burst_%d", sc.N))
	return out
}

func TestC07Burst(t *testing.T) {
	vstat.Run(t, "C07", "netw", genC07Burst, execC07Burst)
}
