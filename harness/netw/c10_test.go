//go:build verif

package netw

// C10 (real store back ends that cannot be used) — "whatever the persistent
// store does ... client requests are still answered correctly, responses
// cached in memory keep being served". The simulation injects per-call faults
// through a store of its own; here the store is one of pike's real back ends in
// a state in which it cannot work at all: a badger directory that cannot be
// created, one that is a regular file, a second spelling of a directory another
// cache has locked, a redis nobody listens on.

import (
	"bytes"
	"fmt"
	"net/http"
	"os"
	"path/filepath"
	"sync"
	"testing"
	"time"

	"github.com/vicanso/pike/config"
	"github.com/vicanso/pike/store"
	"pgregory.net/rapid"

	"verif/harness/internal/vstat"
)

type c10Open struct {
	Store string `json:"store"` // nodir | file | locked | redis
	Reqs  []struct {
		Key       int  `json:"key"`
		Cacheable bool `json:"cacheable"`
	} `json:"reqs"`
}

var (
	c10oOnce sync.Once
	c10oUp   *upstreamSrv
	c10oCl   *http.Client
	c10oSeq  int
	c10oDir  string
)

const c10oAddr = "127.0.0.9:0"

func genC10Open(t *rapid.T) c10Open {
	sc := c10Open{Store: rapid.SampledFrom([]string{"nodir", "file", "locked", "redis"}).Draw(t, "store")}
	n := rapid.IntRange(3, 8).Draw(t, "n")
	for i := 0; i < n; i++ {
		k := rapid.IntRange(0, 2).Draw(t, "key")
		sc.Reqs = append(sc.Reqs, struct {
			Key       int  `json:"key"`
			Cacheable bool `json:"cacheable"`
		}{k, k != 2})
	}
	return sc
}

func execC10Open(sc c10Open) *vstat.Outcome {
	out := &vstat.Outcome{}
	c10oOnce.Do(func() {
		c10oUp = newUpstream("c10o")
		c10oCl = newClient()
		d, err := os.MkdirTemp(".", "c10-store-")
		if err != nil {
			d = "c10-store"
		}
		c10oDir, _ = filepath.Abs(d)
		_ = os.WriteFile(filepath.Join(c10oDir, "regular-file"), []byte("not a directory"), 0o644)
	})
	c10oSeq++
	n := c10oSeq
	name := fmt.Sprintf("c10o-%d", n)
	caches := []config.CacheConfig{{Name: name, Size: 100, HitForPass: "5m"}}
	switch sc.Store {
	case "nodir":
		caches[0].Store = "badger:///dev/null/verif-c10/x"
	case "file":
		caches[0].Store = "badger://" + filepath.Join(c10oDir, "regular-file")
	case "locked":
		// another cache holds the directory; this one names it with a trailing slash
		caches = append(caches, config.CacheConfig{Name: name + "-holder", Size: 100, HitForPass: "5m", Store: "badger://" + filepath.Join(c10oDir, "held")})
		caches[0], caches[1] = caches[1], caches[0]
		caches[1].Store = "badger://" + filepath.Join(c10oDir, "held") + "/"
	case "redis":
		caches[0].Store = "redis://127.0.0.1:1/?timeout=200ms"
	}
	cfg := &config.PikeConfig{
		Caches:    caches,
		Upstreams: []config.UpstreamConfig{{Name: "c10oup", Servers: []config.UpstreamServerConfig{{Addr: c10oUp.URL()}}}},
		Locations: []config.LocationConfig{{Name: "c10oloc", Upstream: "c10oup"}},
		Servers:   []config.ServerConfig{{Addr: c10oAddr, Locations: []string{"c10oloc"}, Cache: name}},
	}
	if err := cfg.Validate(); err != nil {
		out.Class("rejected_by_validate")
		return out
	}
	if err := applyConfig(cfg); err != nil {
		out.Inconclusive = true
		return out
	}
	addr := listenAddr(c10oAddr)
	body := genBytes(3000, "text", uint32(n))
	specC, specU := fmt.Sprintf("c10o-%d-c", n), fmt.Sprintf("c10o-%d-u", n)
	c10oUp.setSpec(specC, &respSpec{Status: 200, Headers: [][2]string{{"Content-Type", "text/plain"}, {"Cache-Control", "max-age=300"}}, Body: body})
	c10oUp.setSpec(specU, &respSpec{Status: 200, Headers: [][2]string{{"Content-Type", "text/plain"}}, Body: body})
	defer func() {
		c10oUp.mu.Lock()
		delete(c10oUp.specs, specC)
		delete(c10oUp.specs, specU)
		c10oUp.logs = nil
		c10oUp.mu.Unlock()
	}()
	seen := map[int]bool{}
	hits := 0
	for i, r := range sc.Reqs {
		spec := specU
		if r.Cacheable {
			spec = specC
		}
		uri := fmt.Sprintf("/c10o/%d/k%d", n, r.Key)
		resp := do(c10oCl, reqSpec{Method: "GET", Addr: addr, Host: "c10o.test", URI: uri, Header: http.Header{"X-Spec": []string{spec}}})
		what := fmt.Sprintf("request %d (%s, store %s)", i, uri, sc.Store)
		if resp.Err != "" || resp.Code != 200 || !bytes.Equal(resp.Body, body) {
			out.Violate("C10", "not-answered", "%s: the cache's store cannot be used, yet the request must be answered from the upstream: err %q status %d (%s)", what, resp.Err, resp.Code, trunc(resp.Raw, 120))
			return out
		}
		if r.Cacheable && seen[r.Key] {
			if resp.Header.Get("X-Status") != "hit" {
				out.Violate("C10", "memory-entry-lost", "%s: the response was cached in memory by an earlier request but this one is labelled %q", what, resp.Header.Get("X-Status"))
			}
			hits++
		}
		if r.Cacheable {
			seen[r.Key] = true
		}
	}
	out.NonTrivial = hits > 0
	out.Class("store_" + sc.Store)
	out.Evals = len(sc.Reqs)
	return out
}

func TestC10StoreOpen(t *testing.T) {
	vstat.Run(t, "C10", "netw", genC10Open, execC10Open)
}

// ---------------------------------------------------------------------
// slow store: every call takes a while (a remote store). A record that is not in
// memory is looked up by the first request while further requests for the key
// arrive; all of them must be answered.

type c10Slow struct {
	Kind    string `json:"kind"`    // hfp (the record is a hit-for-pass marker) | hit
	Burst   int    `json:"burst"`   // concurrent requests after the entry left memory
	GapMs   int    `json:"gapMs"`   // stagger between them
	DelayMs int    `json:"delayMs"` // how long a store call takes
}

type slowStore struct {
	rtStore
	delay time.Duration
}

func (s *slowStore) Get(key []byte) ([]byte, error) {
	time.Sleep(s.delay)
	return s.rtStore.Get(key)
}
func (s *slowStore) Set(key []byte, data []byte, ttl time.Duration) error {
	time.Sleep(s.delay / 4)
	return s.rtStore.Set(key, data, ttl)
}

const c10sAddr = "127.0.0.10:0"

func genC10Slow(t *rapid.T) c10Slow {
	return c10Slow{
		Kind:    rapid.SampledFrom([]string{"hfp", "hfp", "hit"}).Draw(t, "kind"),
		Burst:   rapid.IntRange(2, 5).Draw(t, "burst"),
		GapMs:   rapid.SampledFrom([]int{0, 5, 15, 30}).Draw(t, "gapMs"),
		DelayMs: rapid.SampledFrom([]int{20, 40, 80}).Draw(t, "delayMs"),
	}
}

func execC10Slow(sc c10Slow) *vstat.Outcome {
	out := &vstat.Outcome{}
	c10oOnce.Do(func() {
		c10oUp = newUpstream("c10o")
		c10oCl = newClient()
		d, _ := os.MkdirTemp(".", "c10-store-")
		c10oDir, _ = filepath.Abs(d)
		_ = os.WriteFile(filepath.Join(c10oDir, "regular-file"), []byte("not a directory"), 0o644)
	})
	c10oSeq++
	n := c10oSeq
	name := fmt.Sprintf("c10s-%d", n)
	url := "verifmem://" + name
	store.VerifRegisterStore(url, &slowStore{rtStore: rtStore{data: map[string]rtRec{}}, delay: time.Duration(sc.DelayMs) * time.Millisecond})
	defer store.VerifUnregisterStore(url)
	cfg := &config.PikeConfig{
		Caches:    []config.CacheConfig{{Name: name, Size: 1, HitForPass: "5m", Store: url}},
		Upstreams: []config.UpstreamConfig{{Name: "c10oup", Servers: []config.UpstreamServerConfig{{Addr: c10oUp.URL()}}}},
		Locations: []config.LocationConfig{{Name: "c10oloc", Upstream: "c10oup"}},
		Servers:   []config.ServerConfig{{Addr: c10sAddr, Locations: []string{"c10oloc"}, Cache: name}},
	}
	if err := applyConfig(cfg); err != nil {
		out.Inconclusive = true
		return out
	}
	addr := listenAddr(c10sAddr)
	body := genBytes(300, "text", uint32(n))
	spec := fmt.Sprintf("c10s-%d", n)
	hdr := [][2]string{{"Content-Type", "text/plain"}}
	if sc.Kind == "hit" {
		hdr = append(hdr, [2]string{"Cache-Control", "max-age=300"})
	}
	c10oUp.setSpec(spec, &respSpec{Status: 200, Headers: hdr, Body: body})
	defer func() {
		c10oUp.mu.Lock()
		delete(c10oUp.specs, spec)
		c10oUp.logs = nil
		c10oUp.mu.Unlock()
	}()
	cl := &http.Client{Transport: c10oCl.Transport, Timeout: 6 * time.Second}
	get := func(uri string) *clientResp {
		return do(cl, reqSpec{Method: "GET", Addr: addr, Host: "c10s.test", URI: uri, Header: http.Header{"X-Spec": []string{spec}}})
	}
	key := fmt.Sprintf("/c10s/%d/k", n)
	if r := get(key); r.Err != "" || r.Code != 200 {
		out.Violate("C10", "not-answered", "first request: err %q status %d", r.Err, r.Code)
		return out
	}
	// another key pushes the entry out of the one-entry memory; its record stays in the store
	if r := get(fmt.Sprintf("/c10s/%d/other", n)); r.Err != "" || r.Code != 200 {
		out.Violate("C10", "not-answered", "request for the other key: err %q status %d", r.Err, r.Code)
		return out
	}
	var wg sync.WaitGroup
	res := make([]*clientResp, sc.Burst)
	for i := range res {
		wg.Add(1)
		go func(i int) {
			defer wg.Done()
			time.Sleep(time.Duration(i*sc.GapMs) * time.Millisecond)
			res[i] = get(key)
		}(i)
	}
	wg.Wait()
	for i, r := range res {
		if r.Err != "" || r.Code != 200 || !bytes.Equal(r.Body, body) {
			out.Violate("C10", "not-answered", "request %d of %d that arrived while the store (every call takes %d ms) was answering the lookup of a stored %s record: err %q status %d", i, sc.Burst, sc.DelayMs, sc.Kind, r.Err, r.Code)
		}
	}
	out.NonTrivial = true
	out.Class("record_" + sc.Kind)
	out.Evals = sc.Burst + 2
	return out
}

func TestC10SlowStore(t *testing.T) {
	vstat.Run(t, "C10", "netw", genC10Slow, execC10Slow)
}

// TestC08SlowReload: the same histories judged for C08 -- a persisted response that left memory
// is asked for by several clients at once while the store is slow: each of them is served it
// unchanged or a refetched one, never an error
func TestC08SlowReload(t *testing.T) {
	vstat.Run(t, "C08", "netw", genC10Slow, execC10Slow)
}
