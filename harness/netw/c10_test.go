//go:build verif

package netw

// C10 (real store back ends that cannot be used) — "whatever the persistent
// store does ... client requests are still answered correctly, responses
// cached in memory keep being served". The simulation injects per-call faults
// through a store of its own; here the store is one of pike's real back ends in
// a state in which it cannot work at all: a badger directory that cannot be
// created, one that is a regular file, a second spelling of a directory another
// cache has locked, a redis nobody listens on.

import (
	"bytes"
	"fmt"
	"net/http"
	"os"
	"path/filepath"
	"sync"
	"testing"

	"github.com/vicanso/pike/config"
	"pgregory.net/rapid"

	"verif/harness/internal/vstat"
)

type c10Open struct {
	Store string `json:"store"` // nodir | file | locked | redis
	Reqs  []struct {
		Key       int  `json:"key"`
		Cacheable bool `json:"cacheable"`
	} `json:"reqs"`
}

var (
	c10oOnce sync.Once
	c10oUp   *upstreamSrv
	c10oCl   *http.Client
	c10oSeq  int
	c10oDir  string
)

const c10oAddr = "127.0.0.9:0"

func genC10Open(t *rapid.T) c10Open {
	sc := c10Open{Store: rapid.SampledFrom([]string{"nodir", "file", "locked", "redis"}).Draw(t, "store")}
	n := rapid.IntRange(3, 8).Draw(t, "n")
	for i := 0; i < n; i++ {
		k := rapid.IntRange(0, 2).Draw(t, "key")
		sc.Reqs = append(sc.Reqs, struct {
			Key       int  `json:"key"`
			Cacheable bool `json:"cacheable"`
		}{k, k != 2})
	}
	return sc
}

func execC10Open(sc c10Open) *vstat.Outcome {
	out := &vstat.Outcome{}
	c10oOnce.Do(func() {
		c10oUp = newUpstream("c10o")
		c10oCl = newClient()
		d, err := os.MkdirTemp(".", "c10-store-")
		if err != nil {
			d = "c10-store"
		}
		c10oDir, _ = filepath.Abs(d)
		_ = os.WriteFile(filepath.Join(c10oDir, "regular-file"), []byte("not a directory"), 0o644)
	})
	c10oSeq++
	n := c10oSeq
	name := fmt.Sprintf("c10o-%d", n)
	caches := []config.CacheConfig{{Name: name, Size: 100, HitForPass: "5m"}}
	switch sc.Store {
	case "nodir":
		caches[0].Store = "badger:///dev/null/verif-c10/x"
	case "file":
		caches[0].Store = "badger://" + filepath.Join(c10oDir, "regular-file")
	case "locked":
		// another cache holds the directory; this one names it with a trailing slash
		caches = append(caches, config.CacheConfig{Name: name + "-holder", Size: 100, HitForPass: "5m", Store: "badger://" + filepath.Join(c10oDir, "held")})
		caches[0], caches[1] = caches[1], caches[0]
		caches[1].Store = "badger://" + filepath.Join(c10oDir, "held") + "/"
	case "redis":
		caches[0].Store = "redis://127.0.0.1:1/?timeout=200ms"
	}
	cfg := &config.PikeConfig{
		Caches:    caches,
		Upstreams: []config.UpstreamConfig{{Name: "c10oup", Servers: []config.UpstreamServerConfig{{Addr: c10oUp.URL()}}}},
		Locations: []config.LocationConfig{{Name: "c10oloc", Upstream: "c10oup"}},
		Servers:   []config.ServerConfig{{Addr: c10oAddr, Locations: []string{"c10oloc"}, Cache: name}},
	}
	if err := cfg.Validate(); err != nil {
		out.Class("rejected_by_validate")
		return out
	}
	if err := applyConfig(cfg); err != nil {
		out.Inconclusive = true
		return out
	}
	addr := listenAddr(c10oAddr)
	body := genBytes(3000, "text", uint32(n))
	specC, specU := fmt.Sprintf("c10o-%d-c", n), fmt.Sprintf("c10o-%d-u", n)
	c10oUp.setSpec(specC, &respSpec{Status: 200, Headers: [][2]string{{"Content-Type", "text/plain"}, {"Cache-Control", "max-age=300"}}, Body: body})
	c10oUp.setSpec(specU, &respSpec{Status: 200, Headers: [][2]string{{"Content-Type", "text/plain"}}, Body: body})
	defer func() {
		c10oUp.mu.Lock()
		delete(c10oUp.specs, specC)
		delete(c10oUp.specs, specU)
		c10oUp.logs = nil
		c10oUp.mu.Unlock()
	}()
	seen := map[int]bool{}
	hits := 0
	for i, r := range sc.Reqs {
		spec := specU
		if r.Cacheable {
			spec = specC
		}
		uri := fmt.Sprintf("/c10o/%d/k%d", n, r.Key)
		resp := do(c10oCl, reqSpec{Method: "GET", Addr: addr, Host: "c10o.test", URI: uri, Header: http.Header{"X-Spec": []string{spec}}})
		what := fmt.Sprintf("request %d (%s, store %s)", i, uri, sc.Store)
		if resp.Err != "" || resp.Code != 200 || !bytes.Equal(resp.Body, body) {
			out.Violate("C10", "not-answered", "%s: the cache's store cannot be used, yet the request must be answered from the upstream: err %q status %d (%s)", what, resp.Err, resp.Code, trunc(resp.Raw, 120))
			return out
		}
		if r.Cacheable && seen[r.Key] {
			if resp.Header.Get("X-Status") != "hit" {
				out.Violate("C10", "memory-entry-lost", "%s: the response was cached in memory by an earlier request but this one is labelled %q", what, resp.Header.Get("X-Status"))
			}
			hits++
		}
		if r.Cacheable {
			seen[r.Key] = true
		}
	}
	out.NonTrivial = hits > 0
	out.Class("store_" + sc.Store)
	out.Evals = len(sc.Reqs)
	return out
}

func TestC10StoreOpen(t *testing.T) {
	vstat.Run(t, "C10", "netw", genC10Open, execC10Open)
}
