//go:build verif

package netw

// C05 (upstream body cut off) — whatever the client is given as a complete,
// well-framed response must be the upstream's body: an upstream answer that
// breaks off in the middle of its body may fail the request, but it is never
// delivered as a complete 200 (to the fetching request, to requests waiting
// for it, or to later hits), and once the upstream answers completely again
// the clients get the complete body.

import (
	"bytes"
	"fmt"
	"net/http"
	"sync"
	"testing"
	"time"

	"github.com/vicanso/pike/config"
	"pgregory.net/rapid"

	"verif/harness/internal/vstat"
)

type c05Cut struct {
	Size      int      `json:"size"`
	Shape     string   `json:"shape"`
	UpEnc     string   `json:"upEnc,omitempty"`
	Cacheable bool     `json:"cacheable"`
	Cuts      int      `json:"cuts"`     // how many upstream answers break off
	Waiters   int      `json:"waiters"`  // requests sent while the first one is in flight
	AEs       []string `json:"aes"`      // Accept-Encoding of the follow-up requests ("-" absent)
	MinLength string   `json:"minLength,omitempty"`
}

var (
	c05cOnce sync.Once
	c05cUp   *upstreamSrv
	c05cCl   *http.Client
	c05cSeq  int
)

const c05cAddr = "127.0.0.8:0"

func genC05Cut(t *rapid.T) c05Cut {
	sc := c05Cut{
		Size:      rapid.SampledFrom([]int{2000, 9000, 70000, 220000}).Draw(t, "size"),
		Shape:     rapid.SampledFrom([]string{"text", "text", "random"}).Draw(t, "shape"),
		UpEnc:     rapid.SampledFrom([]string{"", "", "gzip", "br"}).Draw(t, "upEnc"),
		Cacheable: rapid.IntRange(0, 3).Draw(t, "cacheable") > 0,
		Cuts:      rapid.IntRange(1, 2).Draw(t, "cuts"),
		Waiters:   rapid.IntRange(0, 3).Draw(t, "waiters"),
		MinLength: rapid.SampledFrom([]string{"", "100", "1mb"}).Draw(t, "minLength"),
	}
	n := rapid.IntRange(2, 5).Draw(t, "followUps")
	for i := 0; i < n; i++ {
		sc.AEs = append(sc.AEs, rapid.SampledFrom([]string{"-", "gzip", "br", "gzip, br", "identity"}).Draw(t, "ae"))
	}
	return sc
}

func execC05Cut(sc c05Cut) *vstat.Outcome {
	out := &vstat.Outcome{}
	c05cOnce.Do(func() {
		c05cUp = newUpstream("c05c")
		c05cCl = newClient()
	})
	c05cSeq++
	n := c05cSeq
	cacheName := fmt.Sprintf("c05c-%d", n)
	cfg := &config.PikeConfig{
		Caches:    []config.CacheConfig{{Name: cacheName, Size: 100, HitForPass: "1s"}},
		Upstreams: []config.UpstreamConfig{{Name: "c05cup", Servers: []config.UpstreamServerConfig{{Addr: c05cUp.URL()}}}},
		Locations: []config.LocationConfig{{Name: "c05cloc", Upstream: "c05cup"}},
		Servers:   []config.ServerConfig{{Addr: c05cAddr, Locations: []string{"c05cloc"}, Cache: cacheName, CompressMinLength: sc.MinLength}},
	}
	if err := applyConfig(cfg); err != nil {
		out.Inconclusive = true
		return out
	}
	addr := listenAddr(c05cAddr)
	full := genBytes(sc.Size, sc.Shape, uint32(n))
	hdr := [][2]string{{"Content-Type", "text/plain"}}
	if sc.Cacheable {
		hdr = append(hdr, [2]string{"Cache-Control", "max-age=300"})
	}
	spec := fmt.Sprintf("c05c-%d", n)
	c05cUp.setSpec(spec, &respSpec{Status: 200, Headers: hdr, Body: full, Encoding: sc.UpEnc, CutFirst: sc.Cuts, DelayMs: 20})
	defer func() {
		c05cUp.mu.Lock()
		delete(c05cUp.specs, spec)
		c05cUp.logs = nil
		c05cUp.mu.Unlock()
	}()
	uri := fmt.Sprintf("/c05c/%d/doc", n)
	req := func(ae string) *clientResp {
		h := http.Header{"X-Spec": []string{spec}}
		if ae != "-" {
			h.Set("Accept-Encoding", ae)
		}
		return do(c05cCl, reqSpec{Method: "GET", Addr: addr, Host: "c05c.test", URI: uri, Header: h})
	}
	truncatedSeen, completeSeen, failed := 0, 0, 0
	judge := func(what string, r *clientResp) {
		if r.Err != "" || r.Code >= 400 {
			failed++
			return // the request failed visibly: fine
		}
		if r.Code != 200 {
			out.Violate("C05", "status", "%s: status %d (X-Status %q)", what, r.Code, r.Header.Get("X-Status"))
			return
		}
		if r.DecodeErr != "" {
			truncatedSeen++
			out.Violate("C05", "cut-body-delivered", "%s: a complete 200 response (X-Status %q, Content-Encoding %q, %d bytes) whose body does not decode: %s", what, r.Header.Get("X-Status"), r.Header.Get("Content-Encoding"), len(r.Raw), r.DecodeErr)
			return
		}
		if !bytes.Equal(r.Body, full) {
			truncatedSeen++
			out.Violate("C05", "cut-body-delivered", "%s: a complete 200 response (X-Status %q, Content-Encoding %q) carries %d bytes, the upstream's body has %d: an upstream answer that broke off was delivered as if it were complete", what, r.Header.Get("X-Status"), r.Header.Get("Content-Encoding"), len(r.Body), len(full))
			return
		}
		completeSeen++
	}
	// the first request meets the cut answer; some others arrive while it is in flight
	var wg sync.WaitGroup
	res := make([]*clientResp, sc.Waiters+1)
	for i := range res {
		wg.Add(1)
		go func(i int) {
			defer wg.Done()
			time.Sleep(time.Duration(i*4) * time.Millisecond)
			res[i] = req(sc.AEs[i%len(sc.AEs)])
		}(i)
	}
	wg.Wait()
	for i, r := range res {
		judge(fmt.Sprintf("concurrent request %d", i), r)
	}
	for i, ae := range sc.AEs {
		judge(fmt.Sprintf("follow-up request %d (Accept-Encoding %q)", i, ae), req(ae))
	}
	// the upstream has been answering completely for a while now
	last := req("-")
	if last.Err != "" || last.Code != 200 {
		// hit-for-pass of 1 s after a failed fetch: wait it out once
		time.Sleep(1100 * time.Millisecond)
		last = req("-")
	}
	judge("final request", last)
	if last.Err != "" || last.Code != 200 {
		out.Violate("C05", "no-recovery", "the upstream answers completely again, but the final request got status %d %s", last.Code, last.Err)
	}
	// the first upstream contact of the case always breaks off
	contacts := len(c05cUp.logsFor(func(l *upLog) bool { return l.Spec == spec }))
	out.NonTrivial = contacts > sc.Cuts && completeSeen > 0
	if failed > 0 {
		out.Class("some_request_failed_visibly")
	}
	if sc.Waiters > 0 {
		out.Class("with_concurrent_requests")
	}
	if sc.UpEnc != "" {
		out.Class("upstream_" + sc.UpEnc)
	}
	out.Evals = len(res) + len(sc.AEs) + 1
	return out
}

func TestC05CutBody(t *testing.T) {
	vstat.Run(t, "C05", "netw", genC05Cut, execC05Cut)
}
