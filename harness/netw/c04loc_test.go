//go:build verif

package netw

// C04 (lifetime set by the location) — the lifetime T of a stored response is
// that of the response pike hands out: a location may add a Cache-Control line
// of its own (respHeaders) that is more restrictive than the upstream's. The
// stored response is served for T seconds, not for the upstream's lifetime.

import (
	"fmt"
	"net/http"
	"strconv"
	"sync"
	"testing"
	"time"

	"github.com/vicanso/pike/config"
	"pgregory.net/rapid"

	"verif/harness/internal/vstat"
)

type c04Loc struct {
	T        int    `json:"t"`        // lifetime the location's header gives (s-maxage)
	UpMaxAge int    `json:"upMaxAge"` // what the upstream says (max-age)
	Form     string `json:"form"`     // how the location says it
	LateMs   int    `json:"lateMs"`   // the late request comes this long after T+1 s
}

var (
	c04lOnce sync.Once
	c04lUp   *upstreamSrv
	c04lCl   *http.Client
	c04lSeq  int
)

const c04lAddr = "127.0.0.13:0"

func genC04Loc(t *rapid.T) c04Loc {
	return c04Loc{
		T:        rapid.SampledFrom([]int{1, 1, 2}).Draw(t, "T"),
		UpMaxAge: rapid.SampledFrom([]int{30, 300, 86400}).Draw(t, "upMaxAge"),
		Form:     rapid.SampledFrom([]string{"s-maxage=%d", "public, s-maxage=%d"}).Draw(t, "form"),
		LateMs:   rapid.SampledFrom([]int{300, 700, 1500}).Draw(t, "lateMs"),
	}
}

func execC04Loc(sc c04Loc) *vstat.Outcome {
	out := &vstat.Outcome{}
	c04lOnce.Do(func() {
		c04lUp = newUpstream("c04l")
		c04lCl = newClient()
	})
	c04lSeq++
	n := c04lSeq
	name := fmt.Sprintf("c04l-%d", n)
	form := sc.Form
	if form == "S-MaxAge=%d" {
		form = "s-maxage=%d" // spellings other than lower case are left open by C03; not this check's subject
	}
	cfg := &config.PikeConfig{
		Caches:    []config.CacheConfig{{Name: name, Size: 100, HitForPass: "5m"}},
		Upstreams: []config.UpstreamConfig{{Name: "c04lup", Servers: []config.UpstreamServerConfig{{Addr: c04lUp.URL()}}}},
		Locations: []config.LocationConfig{{Name: "c04lloc", Upstream: "c04lup", RespHeaders: []string{"Cache-Control:" + fmt.Sprintf(form, sc.T), "X-Loc:c04"}}},
		Servers:   []config.ServerConfig{{Addr: c04lAddr, Locations: []string{"c04lloc"}, Cache: name}},
	}
	if err := applyConfig(cfg); err != nil {
		out.Inconclusive = true
		return out
	}
	addr := listenAddr(c04lAddr)
	spec := fmt.Sprintf("c04l-%d", n)
	c04lUp.setSpec(spec, &respSpec{Status: 200, Headers: [][2]string{{"Content-Type", "text/plain"}, {"Cache-Control", "max-age=" + strconv.Itoa(sc.UpMaxAge)}}, Body: []byte("body of " + spec)})
	defer func() {
		c04lUp.mu.Lock()
		delete(c04lUp.specs, spec)
		c04lUp.logs = nil
		c04lUp.mu.Unlock()
	}()
	uri := fmt.Sprintf("/c04l/%d/k", n)
	get := func() *clientResp {
		return do(c04lCl, reqSpec{Method: "GET", Addr: addr, Host: "c04l.test", URI: uri, Header: http.Header{"X-Spec": []string{spec}}})
	}
	reached := func(r *clientResp) bool {
		return len(c04lUp.logsFor(func(l *upLog) bool { return l.ReqID == r.ReqID })) > 0
	}
	r1 := get()
	if r1.Err != "" || r1.Code != 200 || !reached(r1) {
		out.Inconclusive = true
		return out
	}
	if got := r1.Header.Values("Cache-Control"); len(got) < 2 {
		// the response handed out must carry both lines; if it does not, this case says nothing
		out.Class("location_header_not_added")
		return out
	}
	obtained := r1.End
	time.Sleep(time.Until(obtained.Add(time.Duration(sc.T+1)*time.Second + time.Duration(sc.LateMs)*time.Millisecond)))
	r2 := get()
	if r2.Err != "" || r2.Code != 200 {
		out.Violate("C04", "request", "late request: err %q status %d", r2.Err, r2.Code)
		return out
	}
	elapsed := r2.Start.Sub(obtained).Seconds()
	if !reached(r2) {
		out.Violate("C04", "served-after-expiry", "the location adds Cache-Control %q to an upstream answer with max-age=%d, so the response pike hands out and stores has a lifetime of %d s; %.2f s after it was obtained a request is still served from cache (X-Status %q, Age %q)", fmt.Sprintf(form, sc.T), sc.UpMaxAge, sc.T, elapsed, r2.Header.Get("X-Status"), r2.Header.Get("Age"))
	}
	out.NonTrivial = true
	out.Evals = 2
	return out
}

func TestC04Location(t *testing.T) {
	vstat.Run(t, "C04", "netw", genC04Loc, execC04Loc)
}
