//go:build verif

package netw

// C03 (forwarding clause) — "non-GET/HEAD requests are always forwarded, each
// exactly once" and "every successful response not labelled a hit involved
// exactly one upstream contact", under upstream faults: the origin reads the
// request and then resets the connection, aborts in the middle of the body, or
// answers 5xx. Whatever pike answers, the origin must have seen the request
// exactly once.

import (
	"fmt"
	"net/http"
	"sync"
	"testing"

	"github.com/vicanso/pike/config"
	"pgregory.net/rapid"

	"verif/harness/internal/vstat"
)

type c03fReq struct {
	Method  string `json:"method"`
	BodyLen int    `json:"bodyLen,omitempty"`
	Fault   string `json:"fault,omitempty"` // "", reset, abort, 500, slow-reset
	Key     int    `json:"key"`
	// Forbid: the origin's answer carries this (with max-age=60) and must never be stored, although
	// the location adds a response header "Cache-Control: public, max-age=300" of its own
	Forbid string `json:"forbid,omitempty"` // "", private, no-store, no-cache, set-cookie
}

type c03fScenario struct {
	Reqs []c03fReq `json:"reqs"`
}

var (
	c03fOnce sync.Once
	c03fUp   *upstreamSrv
	c03fCl   *http.Client
	c03fSeq  int
)

const c03fAddr = "127.0.0.7:0"

func genC03Forward(t *rapid.T) c03fScenario {
	sc := c03fScenario{}
	n := rapid.IntRange(3, 10).Draw(t, "n")
	for i := 0; i < n; i++ {
		r := c03fReq{
			Method: rapid.SampledFrom([]string{"POST", "POST", "PUT", "DELETE", "PATCH", "GET", "HEAD"}).Draw(t, "method"),
			Fault:  rapid.SampledFrom([]string{"", "", "reset", "reset", "abort", "500", "slow-reset"}).Draw(t, "fault"),
			Key:    rapid.IntRange(0, 2).Draw(t, "key"),
		}
		if r.Method != "GET" && r.Method != "HEAD" {
			r.BodyLen = rapid.SampledFrom([]int{0, 0, 0, 1, 300, 70000}).Draw(t, "bodyLen")
		} else if rapid.IntRange(0, 2).Draw(t, "forbidP") == 0 {
			r.Fault = ""
			r.Forbid = rapid.SampledFrom([]string{"private", "no-store", "no-cache", "set-cookie", "Private"}).Draw(t, "forbid")
		}
		sc.Reqs = append(sc.Reqs, r)
	}
	return sc
}

func execC03Forward(sc c03fScenario) *vstat.Outcome {
	out := &vstat.Outcome{}
	c03fOnce.Do(func() {
		c03fUp = newUpstream("c03f")
		c03fCl = newClient()
	})
	c03fSeq++
	n := c03fSeq
	cacheName := fmt.Sprintf("c03f-%d", n)
	cfg := &config.PikeConfig{
		Caches:    []config.CacheConfig{{Name: cacheName, Size: 100, HitForPass: "5m"}},
		Upstreams: []config.UpstreamConfig{{Name: "c03fup", Servers: []config.UpstreamServerConfig{{Addr: c03fUp.URL()}}}},
		Locations: []config.LocationConfig{{Name: "c03floc", Upstream: "c03fup"},
			{Name: "c03fcc", Upstream: "c03fup", Prefixes: []string{"/cc/"}, RespHeaders: []string{"Cache-Control:public, max-age=300", "X-Loc:cc"}}},
		Servers: []config.ServerConfig{{Addr: c03fAddr, Locations: []string{"c03floc", "c03fcc"}, Cache: cacheName}},
	}
	if err := applyConfig(cfg); err != nil {
		out.Inconclusive = true
		return out
	}
	addr := listenAddr(c03fAddr)
	hdr := [][2]string{{"Content-Type", "text/plain"}}
	body := genBytes(5000, "text", uint32(n))
	specs := map[string]*respSpec{
		"":           {Status: 200, Headers: hdr, Body: body},
		"reset":      {Reset: true},
		"slow-reset": {Reset: true, DelayMs: 30},
		"abort":      {Status: 200, Headers: hdr, Body: body, Abort: true},
		"500":        {Status: 500, Headers: hdr, Body: []byte("upstream failure")},
	}
	for _, f := range []string{"private", "no-store", "no-cache", "Private"} {
		specs["forbid-"+f] = &respSpec{Status: 200, Headers: [][2]string{{"Content-Type", "text/plain"}, {"Cache-Control", f + ", max-age=60"}}, Body: body}
	}
	specs["forbid-set-cookie"] = &respSpec{Status: 200, Headers: [][2]string{{"Content-Type", "text/plain"}, {"Cache-Control", "max-age=60"}, {"Set-Cookie", "sid=1"}}, Body: body}
	ids := map[string]string{}
	for f, sp := range specs {
		id := fmt.Sprintf("c03f-%d-%s", n, f)
		ids[f] = id
		c03fUp.setSpec(id, sp)
	}
	defer func() {
		c03fUp.mu.Lock()
		for _, id := range ids {
			delete(c03fUp.specs, id)
		}
		c03fUp.logs = nil
		c03fUp.mu.Unlock()
	}()
	faulted, bodiless, forbidden := 0, 0, 0
	for i, r := range sc.Reqs {
		var reqBody []byte
		if r.BodyLen > 0 {
			reqBody = genBytes(r.BodyLen, "random", uint32(i+n))
		}
		uri := fmt.Sprintf("/c03f/%d/k%d", n, r.Key)
		specID := ids[r.Fault]
		if r.Forbid != "" {
			uri = fmt.Sprintf("/cc/%d/%s/k%d", n, r.Forbid, r.Key)
			specID = ids["forbid-"+r.Forbid]
		}
		resp := do(c03fCl, reqSpec{Method: r.Method, Addr: addr, Host: "c03f.test", URI: uri, Header: http.Header{"X-Spec": []string{specID}}, Body: reqBody})
		what := fmt.Sprintf("request %d (%s %s, %d-byte body, upstream fault %q)", i, r.Method, uri, r.BodyLen, r.Fault)
		if resp.ReqID == "" {
			out.Violate("C03", "harness", "%s: no request id", what)
			continue
		}
		logs := c03fUp.logsFor(func(l *upLog) bool { return l.ReqID == resp.ReqID })
		if r.Forbid != "" {
			forbidden++
			if resp.Err == "" && (resp.Header.Get("X-Status") == "hit" || len(logs) == 0) {
				out.Violate("C03", "stored-although-forbidden", "%s: the origin answers %q for this URL (the location adds its own Cache-Control: public response header), yet the request was answered from cache (X-Status %q, %d upstream contacts)", what, r.Forbid, resp.Header.Get("X-Status"), len(logs))
			}
		}
		pass := r.Method != "GET" && r.Method != "HEAD"
		if pass {
			// Go's transport never replays these methods; pike must not either. (Not at all is
			// possible too: a pooled upstream connection that an earlier fault has killed fails on
			// its next use before the origin sees anything -- then the client must get an error.)
			failedVisibly := resp.Err != "" || resp.Code >= 400
			if len(logs) > 1 || len(logs) == 0 && !failedVisibly {
				out.Violate("C03", "forwarded-once", "%s: the origin received this request %d times (the client got status %d, X-Status %q, error %q)", what, len(logs), resp.Code, resp.Header.Get("X-Status"), resp.Err)
			}
			if len(logs) == 0 {
				out.Class("pass_request_lost_on_dead_pooled_connection")
			}
			if r.Fault != "" {
				faulted++
				if r.BodyLen == 0 {
					bodiless++
				}
			}
		}
		if resp.Err == "" && resp.Code >= 200 && resp.Code < 400 {
			xs := resp.Header.Get("X-Status")
			if xs == "hit" && len(logs) != 0 {
				out.Violate("C03", "label", "%s: labelled hit but reached the origin", what)
			}
			if xs != "hit" && len(logs) != 1 && (pass || r.Fault == "") {
				out.Violate("C03", "label", "%s: a successful response labelled %q involved %d upstream contacts", what, xs, len(logs))
			}
			if pass && xs != "passed" {
				out.Violate("C03", "label", "%s: labelled %q", what, xs)
			}
		}
		if (r.Fault == "reset" || r.Fault == "slow-reset") && resp.Err == "" && resp.Code < 400 {
			out.Violate("C03", "answered-without-origin-answer", "%s: the origin never answered this request but the client got status %d (X-Status %q)", what, resp.Code, resp.Header.Get("X-Status"))
		}
	}
	out.NonTrivial = faulted > 0 || forbidden > 1
	if forbidden > 1 {
		out.Class("forbidden_answer_with_location_cache_control")
	}
	if bodiless > 0 {
		out.Class("bodiless_pass_request_with_origin_fault")
	}
	if faulted > 0 {
		out.Class("pass_request_with_origin_fault")
	}
	out.Evals = len(sc.Reqs)
	return out
}

func TestC03Forward(t *testing.T) {
	vstat.Run(t, "C03", "netw", genC03Forward, execC03Forward)
}
