//go:build verif

package netw

// C17 ("apply" part) — any accepted configuration, once applied, lets every
// server resolve everything it needs: no request fails for a missing cache,
// location or upstream entry.  Generated configurations (names from a pool of
// awkward strings, several servers sharing or not sharing caches/locations) are
// validated by pike, applied with the call sequence of main.update, and every
// server is probed with one request per location it lists.

import (
	"fmt"
	"net/http"
	"os"
	"path/filepath"
	"strings"
	"sync"
	"testing"

	"github.com/vicanso/pike/config"
	"pgregory.net/rapid"

	"verif/harness/internal/vstat"
)

type c17aScenario struct {
	Cfg config.PikeConfig `json:"cfg"`
}

var (
	c17aOnce sync.Once
	c17aUp   *upstreamSrv
	c17aCl   *http.Client
)

var (
	c17aDirOnce sync.Once
	c17aDir     string
)

// c17aBadgerDir: a directory of this test process for badger stores (removed by the driver
// together with the process's working directory)
func c17aBadgerDir() string {
	c17aDirOnce.Do(func() {
		d, err := os.MkdirTemp(".", "c17-badger-")
		if err != nil {
			d = "c17-badger"
		}
		c17aDir, _ = filepath.Abs(d)
	})
	return c17aDir
}

var c17aNames = []string{"n1", "yes", "null", "~", "a: b", "- x", "#c", " lead", "trail ", "名字", "on", "123", "x", "abcdefghijklmnopqrst", "{a}", "[b]", "a,b", "%p", "*alias", "|", "key: 'v'", "a/b", "a b", "A", "a"}

func c17aUnique(t *rapid.T, n int, label string) []string {
	seen := map[string]bool{}
	var res []string
	for len(res) < n {
		s := rapid.SampledFrom(c17aNames).Draw(t, label)
		if seen[s] {
			continue
		}
		seen[s] = true
		res = append(res, s)
	}
	return res
}

func genC17a(t *rapid.T) c17aScenario {
	c := config.PikeConfig{}
	for _, n := range c17aUnique(t, rapid.IntRange(0, 2).Draw(t, "nCompress"), "compress") {
		c.Compresses = append(c.Compresses, config.CompressConfig{Name: n, Levels: map[string]uint{"gzip": 5, "br": 4}})
	}
	for _, n := range c17aUnique(t, rapid.IntRange(1, 3).Draw(t, "nCaches"), "cache") {
		cc := config.CacheConfig{Name: n, Size: rapid.SampledFrom([]int{1, 3, 8, 1000}).Draw(t, "size"), HitForPass: rapid.SampledFrom([]string{"5m", "0s", "1s"}).Draw(t, "hfp")}
		// stores: none; a badger directory (BADGER stands for a directory of the test process, two
		// spellings of the same one); one that validates but cannot be opened; an unreachable redis
		cc.Store = rapid.SampledFrom([]string{"", "", "", "badger://BADGER/a", "badger://BADGER/a/", "badger://BADGER/b", "badger:///dev/null/verif-c17/x", "redis://127.0.0.1:1/?timeout=200ms"}).Draw(t, "store")
		c.Caches = append(c.Caches, cc)
	}
	for _, n := range c17aUnique(t, rapid.IntRange(1, 3).Draw(t, "nUpstreams"), "upstream") {
		c.Upstreams = append(c.Upstreams, config.UpstreamConfig{Name: n, Policy: rapid.SampledFrom([]string{"", "first", "random", "roundRobin", "leastconn"}).Draw(t, "policy"),
			HealthCheck: rapid.SampledFrom([]string{"", "/health"}).Draw(t, "health"), Servers: []config.UpstreamServerConfig{{Addr: "UPSTREAM"}}})
	}
	locNames := c17aUnique(t, rapid.IntRange(1, 4).Draw(t, "nLocations"), "location")
	for i, n := range locNames {
		l := config.LocationConfig{Name: n, Upstream: c.Upstreams[rapid.IntRange(0, len(c.Upstreams)-1).Draw(t, "locUp")].Name}
		// every location gets its own prefix so that a probe can address it
		l.Prefixes = []string{fmt.Sprintf("/l%d", i)}
		if rapid.Bool().Draw(t, "hosts") {
			// host names are accepted in any case and compared as written
			l.Hosts = []string{rapid.SampledFrom([]string{"c17.test", "c17.test", "C17.Test", "Api.C17.TEST"}).Draw(t, "hostName")}
		}
		c.Locations = append(c.Locations, l)
	}
	if rapid.IntRange(0, 3).Draw(t, "dupName") == 0 {
		// two entries of the locations list share a name (the validation accepts it): a server that
		// lists the name uses both
		k := rapid.IntRange(0, len(locNames)-1).Draw(t, "dupOf")
		l := config.LocationConfig{Name: locNames[k], Upstream: c.Upstreams[rapid.IntRange(0, len(c.Upstreams)-1).Draw(t, "dupUp")].Name, Prefixes: []string{fmt.Sprintf("/l%d", len(locNames))}}
		if rapid.Bool().Draw(t, "dupHosts") {
			l.Hosts = []string{rapid.SampledFrom([]string{"c17.test", "Other.C17.test"}).Draw(t, "dupHost")}
		}
		if rapid.Bool().Draw(t, "dupFirst") {
			c.Locations = append([]config.LocationConfig{l}, c.Locations...)
		} else {
			c.Locations = append(c.Locations, l)
		}
	}
	ns := rapid.IntRange(1, 3).Draw(t, "nServers")
	for i := 0; i < ns; i++ {
		s := config.ServerConfig{Addr: fmt.Sprintf("127.0.1.%d:0", i+1), Cache: c.Caches[rapid.IntRange(0, len(c.Caches)-1).Draw(t, "srvCache")].Name}
		if len(c.Compresses) > 0 && rapid.Bool().Draw(t, "srvHasCompress") {
			s.Compress = c.Compresses[rapid.IntRange(0, len(c.Compresses)-1).Draw(t, "srvCompress")].Name
		}
		k := rapid.IntRange(1, len(locNames)).Draw(t, "nLocRefs")
		for j := 0; j < k; j++ {
			s.Locations = append(s.Locations, locNames[rapid.IntRange(0, len(locNames)-1).Draw(t, "locRef")])
		}
		c.Servers = append(c.Servers, s)
	}
	// a quarter of the cases carry one dangling reference at a random position: if
	// validation lets it through, applying it must expose the failing lookup
	switch rapid.IntRange(0, 11).Draw(t, "dangling") {
	case 0:
		c.Locations[rapid.IntRange(0, len(c.Locations)-1).Draw(t, "dLoc")].Upstream = "nowhere"
	case 1:
		c.Servers[rapid.IntRange(0, len(c.Servers)-1).Draw(t, "dSrv")].Cache = "nowhere"
	case 2:
		s := &c.Servers[rapid.IntRange(0, len(c.Servers)-1).Draw(t, "dSrv2")]
		s.Locations = append(s.Locations, "nowhere")
	}
	return c17aScenario{Cfg: c}
}

func execC17a(sc c17aScenario) *vstat.Outcome {
	out := &vstat.Outcome{}
	c17aOnce.Do(func() {
		c17aUp = newUpstream("c17")
		c17aCl = newClient()
	})
	cfg := sc.Cfg
	// deep copy the parts we modify
	cfg.Upstreams = append([]config.UpstreamConfig{}, cfg.Upstreams...)
	for i := range cfg.Upstreams {
		cfg.Upstreams[i].Servers = []config.UpstreamServerConfig{{Addr: c17aUp.URL()}}
	}
	cfg.Caches = append([]config.CacheConfig{}, cfg.Caches...)
	stores := 0
	for i := range cfg.Caches {
		if strings.Contains(cfg.Caches[i].Store, "BADGER") {
			cfg.Caches[i].Store = strings.Replace(cfg.Caches[i].Store, "BADGER", c17aBadgerDir(), 1)
		}
		if cfg.Caches[i].Store != "" {
			stores++
		}
	}
	if err := cfg.Validate(); err != nil {
		out.Class("rejected_by_validate")
		return out
	}
	if err := applyConfig(&cfg); err != nil {
		out.Inconclusive = true
		return out
	}
	probes := 0
	for _, s := range cfg.Servers {
		addr := listenAddr(s.Addr)
		if addr == "" {
			out.Violate("C17", "server-missing", "server %q of an accepted configuration is not registered/listening after applying it", s.Addr)
			continue
		}
		var listed []*config.LocationConfig
		seenLoc := map[int]bool{}
		for _, ln := range s.Locations {
			for i := range cfg.Locations {
				if cfg.Locations[i].Name == ln && !seenLoc[i] {
					seenLoc[i] = true
					listed = append(listed, &cfg.Locations[i])
				}
			}
		}
		if len(listed) > len(s.Locations) {
			out.Class("two_locations_share_a_name")
		}
		for _, loc := range listed {
			ln := loc.Name
			probeHost := "c17.test"
			if len(loc.Hosts) > 0 {
				probeHost = loc.Hosts[0]
			}
			r := do(c17aCl, reqSpec{Method: "GET", Addr: addr, Host: probeHost, URI: loc.Prefixes[0] + "/probe"})
			probes++
			if r.Err != "" {
				out.Violate("C17", "transport", "probe of location %q through server %s: %s", ln, s.Addr, r.Err)
				continue
			}
			body := string(r.Raw)
			if r.Code >= 500 && (strings.Contains(body, "cache dispatcher not found") || strings.Contains(body, "location not found") || strings.Contains(body, "upstream not found") || strings.Contains(body, "Upstream Not Found")) {
				out.Violate("C17", "unresolved-at-runtime", "accepted configuration applied, but a request for location %q (prefix %s) through server %s fails with %d %q (cache %q, upstream %q)", ln, loc.Prefixes[0], s.Addr, r.Code, strings.TrimSpace(body), s.Cache, loc.Upstream)
			} else if r.Code != 200 {
				out.Violate("C17", "probe-failed", "probe of location %q through server %s: status %d %q", ln, s.Addr, r.Code, strings.TrimSpace(body))
			}
		}
	}
	// the same accepted configuration applied again while requests keep arriving: whatever a
	// server needs stays resolvable at every instant
	if len(out.Violations) == 0 && len(cfg.Servers) > 0 {
		stop := make(chan struct{})
		var wg sync.WaitGroup
		var mu sync.Mutex
		for w := 0; w < 4; w++ {
			wg.Add(1)
			go func(w int) {
				defer wg.Done()
				for i := 0; ; i++ {
					select {
					case <-stop:
						return
					default:
					}
					s := cfg.Servers[(w+i)%len(cfg.Servers)]
					addr := listenAddr(s.Addr)
					if addr == "" || len(s.Locations) == 0 {
						continue
					}
					var loc *config.LocationConfig
					for k := range cfg.Locations {
						if cfg.Locations[k].Name == s.Locations[i%len(s.Locations)] {
							loc = &cfg.Locations[k]
							break
						}
					}
					if loc == nil {
						continue
					}
					host := "c17.test"
					if len(loc.Hosts) > 0 {
						host = loc.Hosts[0]
					}
					method := "GET"
					if i%3 == 0 {
						method = "POST"
					}
					r := do(c17aCl, reqSpec{Method: method, Addr: addr, Host: host, URI: fmt.Sprintf("%s/reload-%d-%d", loc.Prefixes[0], w, i), Body: []byte("x")})
					body := string(r.Raw)
					if r.Err == "" && r.Code >= 500 && (strings.Contains(body, "cache dispatcher not found") || strings.Contains(body, "location not found") || strings.Contains(body, "upstream not found") || strings.Contains(body, "Upstream Not Found")) {
						mu.Lock()
						if len(out.Violations) < 3 {
							out.Violate("C17", "unresolved-during-reload", "while the same accepted configuration was being applied again, a request for location %q through server %s failed with %d %q", loc.Name, s.Addr, r.Code, strings.TrimSpace(body))
						}
						mu.Unlock()
					}
				}
			}(w)
		}
		for k := 0; k < 3; k++ {
			if err := applyConfig(&cfg); err != nil {
				break
			}
		}
		close(stop)
		wg.Wait()
		out.Class("reapplied_under_traffic")
	}
	quoting := false
	for _, x := range cfg.Caches {
		if strings.ContainsAny(x.Name, ":#-'\"{}[],&*!|>%@`~? ") {
			quoting = true
		}
	}
	out.NonTrivial = probes >= 2 && (quoting || len(cfg.Servers) >= 2)
	out.Evals = probes
	out.Class("applied")
	if stores > 0 {
		out.Class("cache_with_store_url")
	}
	return out
}

func TestC17Apply(t *testing.T) {
	vstat.Run(t, "C17", "netw", genC17a, execC17a)
}
