//go:build verif

package netw

// C04 (slow store write, real clock) — "a cached response is served only while
// the time since pike obtained it is below its lifetime": the simulation has no
// store latency (a goroutine sleeping inside a pike lock would wedge the
// bubble), so the one place where real time passes inside the entry's critical
// section -- the store write of a completing fetch -- is exercised here. The
// fetch of a key with lifetime T stores its record through a store whose write
// takes longer than T; requests that arrive meanwhile are answered after the
// write. None of them may be served the response once T+1 whole seconds have
// passed since pike obtained it, and an Age beyond T never appears on a hit.

import (
	"fmt"
	"net/http"
	"strconv"
	"sync"
	"testing"
	"time"

	"github.com/vicanso/pike/config"
	"github.com/vicanso/pike/store"
	"pgregory.net/rapid"

	"verif/harness/internal/vstat"
)

type c04Slow struct {
	T        int   `json:"t"`        // lifetime in seconds
	WriteMs  int   `json:"writeMs"`  // how long the store write takes
	Arrivals []int `json:"arrivals"` // later requests, ms after the first one was sent
}

type slowWriteStore struct {
	rtStore
	delay time.Duration
}

func (s *slowWriteStore) Set(key []byte, data []byte, ttl time.Duration) error {
	time.Sleep(s.delay)
	return s.rtStore.Set(key, data, ttl)
}

var (
	c04sOnce sync.Once
	c04sUp   *upstreamSrv
	c04sCl   *http.Client
	c04sSeq  int
)

const c04sAddr = "127.0.0.12:0"

func genC04Slow(t *rapid.T) c04Slow {
	sc := c04Slow{T: rapid.SampledFrom([]int{1, 1, 2}).Draw(t, "T")}
	sc.WriteMs = sc.T*1000 + rapid.SampledFrom([]int{1700, 2400, 3000}).Draw(t, "over")
	n := rapid.IntRange(1, 3).Draw(t, "n")
	for i := 0; i < n; i++ {
		sc.Arrivals = append(sc.Arrivals, rapid.SampledFrom([]int{100, 300, 500, 900, 1500}).Draw(t, "arrival"))
	}
	return sc
}

const c04WaiterFinding = "waiter-answer-delayed-by-store-write"

func execC04Slow(sc c04Slow) *vstat.Outcome {
	return c04SlowRun(sc, vstat.KnownOpen(c04WaiterFinding))
}

func c04SlowRun(sc c04Slow, excludeWaiters bool) *vstat.Outcome {
	out := &vstat.Outcome{}
	c04sOnce.Do(func() {
		c04sUp = newUpstream("c04s")
		c04sCl = newClient()
	})
	c04sSeq++
	n := c04sSeq
	name := fmt.Sprintf("c04s-%d", n)
	url := "verifmem://" + name
	store.VerifRegisterStore(url, &slowWriteStore{rtStore: rtStore{data: map[string]rtRec{}}, delay: time.Duration(sc.WriteMs) * time.Millisecond})
	defer store.VerifUnregisterStore(url)
	cfg := &config.PikeConfig{
		Caches:    []config.CacheConfig{{Name: name, Size: 100, HitForPass: "5m", Store: url}},
		Upstreams: []config.UpstreamConfig{{Name: "c04sup", Servers: []config.UpstreamServerConfig{{Addr: c04sUp.URL()}}}},
		Locations: []config.LocationConfig{{Name: "c04sloc", Upstream: "c04sup"}},
		Servers:   []config.ServerConfig{{Addr: c04sAddr, Locations: []string{"c04sloc"}, Cache: name}},
	}
	if err := applyConfig(cfg); err != nil {
		out.Inconclusive = true
		return out
	}
	addr := listenAddr(c04sAddr)
	spec := fmt.Sprintf("c04s-%d", n)
	c04sUp.setSpec(spec, &respSpec{Status: 200, Headers: [][2]string{{"Content-Type", "text/plain"}, {"Cache-Control", "max-age=" + strconv.Itoa(sc.T)}}, Body: []byte("body of " + spec)})
	defer func() {
		c04sUp.mu.Lock()
		delete(c04sUp.specs, spec)
		c04sUp.logs = nil
		c04sUp.mu.Unlock()
	}()
	cl := &http.Client{Transport: c04sCl.Transport, Timeout: 30 * time.Second}
	uri := fmt.Sprintf("/c04s/%d/k", n)
	get := func() *clientResp {
		return do(cl, reqSpec{Method: "GET", Addr: addr, Host: "c04s.test", URI: uri, Header: http.Header{"X-Spec": []string{spec}}})
	}
	var wg sync.WaitGroup
	res := make([]*clientResp, 1+len(sc.Arrivals))
	wg.Add(1)
	go func() { defer wg.Done(); res[0] = get() }()
	for i, ms := range sc.Arrivals {
		wg.Add(1)
		go func(i, ms int) {
			defer wg.Done()
			time.Sleep(time.Duration(ms) * time.Millisecond)
			res[i+1] = get()
		}(i, ms)
	}
	wg.Wait()
	if res[0].Err != "" || res[0].Code != 200 {
		out.Inconclusive = true
		return out
	}
	// which upstream exchange a cache-served response came from: the X-Serial header of the answer
	bySerial := map[string]time.Time{}
	for _, l := range c04sUp.logsFor(func(l *upLog) bool { return l.Spec == spec }) {
		bySerial[strconv.Itoa(l.Serial)] = l.At
	}
	late := 0
	for i, r := range res[1:] {
		if r.Err != "" || r.Code != 200 {
			out.Violate("C04", "request", "request %d: err %q status %d", i+1, r.Err, r.Code)
			continue
		}
		if len(c04sUp.logsFor(func(l *upLog) bool { return l.ReqID == r.ReqID })) > 0 {
			continue // went to the upstream itself
		}
		obtained, ok := bySerial[r.Header.Get("X-Serial")]
		if !ok {
			continue
		}
		if r.Start.Before(obtained) {
			// the request was coalesced behind that very fetch (it arrived before the response was obtained)
			out.Class("waiter_of_a_fetch_with_a_slow_store_write")
			if excludeWaiters {
				if out.Excluded == nil {
					out.Excluded = map[string]int{}
				}
				out.Excluded[c04WaiterFinding]++
				continue
			}
		}
		// pike obtained the response after the upstream logged the request (the answer follows
		// at once); the client had its answer at r.End. Half a second of slack for a busy machine.
		elapsed := r.End.Sub(obtained).Seconds()
		age, _ := strconv.Atoi(r.Header.Get("Age"))
		if age > sc.T {
			out.Violate("C04", "age", "request %d was served from cache with Age %d, the lifetime is %d s (the store write of the fetch took %d ms)", i+1, age, sc.T, sc.WriteMs)
		}
		if elapsed >= float64(sc.T+1)+0.5 {
			late++
			out.Violate("C04", "served-after-expiry", "request %d arrived %.2f s after pike obtained the response (lifetime %d s), waited while the fetch's store write (%d ms) held the entry, and was served that response from cache (X-Status %q, Age %q) %.2f s after it was obtained -- more than a whole second past its lifetime", i+1, r.Start.Sub(obtained).Seconds(), sc.T, sc.WriteMs, r.Header.Get("X-Status"), r.Header.Get("Age"), elapsed)
		}
	}
	_ = late
	out.NonTrivial = true
	out.Evals = len(res)
	return out
}

func TestC04SlowWrite(t *testing.T) {
	vstat.Run(t, "C04", "netw", genC04Slow, execC04Slow)
}

// TestC04ProbeWaiterSlowWrite demonstrates the open finding waiter-answer-delayed-by-store-write:
// lifetime 1 s, the store write of a completing fetch takes 3.4 s. The second request waits for
// the entry, refetches (the first response has expired), and the third request, coalesced behind
// that refetch, is handed the new response at once but answered only after the refetch's store
// write: 3.4 s after pike obtained it, with Age 3.
func TestC04ProbeWaiterSlowWrite(t *testing.T) {
	rec := vstat.For("C04", t.Name(), "netw")
	sc := c04Slow{T: 1, WriteMs: 3400, Arrivals: []int{100, 500}}
	out := c04SlowRun(sc, false)
	vstat.RunOne(t, rec, sc, out)
}
