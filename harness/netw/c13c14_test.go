//go:build verif

package netw

// End-to-end parts of C13 (per-server compression defaults and filters reach
// the negotiation) and C14 (the proxy routes with the server's own locations,
// answers 5xx without contacting any upstream when nothing matches).

import (
	"bytes"
	"fmt"
	"net/http"
	"regexp"
	"strings"
	"sync"
	"testing"

	"github.com/vicanso/pike/config"
	"pgregory.net/rapid"

	"verif/harness/internal/vstat"
)

// ---------------------------------------------------------------------
// C13 e2e

type c13sScenario struct {
	MinLength string `json:"minLength"` // "" (default 1 KiB), 100, 2kb
	Filter    string `json:"filter"`    // "" (default), custom
	Updated   bool   `json:"updated"`   // the server existed before with other settings (Update path) or is new (NewServer path)
	Size      int    `json:"size"`
	CT        string `json:"ct"`
	AE        string `json:"ae"`
	Cacheable bool   `json:"cacheable"`
	UpEnc     string `json:"upEnc"` // "", gzip
	// Sibling: another server of the same configuration with settings of its own (a filter that
	// matches octet-stream only, 5kb), listed before or after the server under test
	Sibling string `json:"sibling,omitempty"` // "", before, after
	// UpAE: the upstream's configured acceptEncoding option (what pike asks the upstream for; the
	// upstream of this check answers with UpEnc whatever it is asked for)
	UpAE string `json:"upAE,omitempty"`
}

var (
	c13sOnce sync.Once
	c13sUp   *upstreamSrv
	c13sCl   *http.Client
	c13sSeq  int
)

func genC13s(t *rapid.T) c13sScenario {
	sc := c13sScenario{
		MinLength: rapid.SampledFrom([]string{"", "", "100", "2kb"}).Draw(t, "minLength"),
		Filter:    rapid.SampledFrom([]string{"", "", "json|xml", "image", ".*", "json|"}).Draw(t, "filter"),
		Updated:   rapid.Bool().Draw(t, "updated"),
		CT:        rapid.SampledFrom([]string{"text/plain", "application/json", "image/png", "", "application/xml"}).Draw(t, "ct"),
		AE:        rapid.SampledFrom([]string{"", "gzip", "br", "gzip, br", "deflate", "br, gzip", "pack200-gzip, gzip", "x-br, br", "x-gzip"}).Draw(t, "ae"),
		Cacheable: rapid.Bool().Draw(t, "cacheable"),
		UpEnc:     rapid.SampledFrom([]string{"", "", "", "gzip"}).Draw(t, "upEnc"),
		Sibling:   rapid.SampledFrom([]string{"", "before", "before", "after"}).Draw(t, "sibling"),
		UpAE:      rapid.SampledFrom([]string{"", "", "gzip", "gzip, br"}).Draw(t, "upAE"),
	}
	thr := map[string]int{"": 1024, "100": 100, "2kb": 2000}[sc.MinLength]
	sc.Size = rapid.SampledFrom([]int{0, 10, 99, 101, thr - 1, thr + 1, 1023, 1025, 1999, 2001, 5000}).Draw(t, "size")
	return sc
}

func execC13s(sc c13sScenario) *vstat.Outcome {
	out := &vstat.Outcome{}
	c13sOnce.Do(func() {
		c13sUp = newUpstream("c13s")
		c13sCl = newClient()
	})
	c13sSeq++
	n := c13sSeq
	// a new address per case when the NewServer path is wanted; the fixed address is updated in place otherwise
	addrKey := "127.0.2.1:0"
	if !sc.Updated {
		addrKey = fmt.Sprintf("127.0.2.%d:0", 2+n%200)
	}
	mk := func(minLength, filter string) *config.PikeConfig {
		cacheName := fmt.Sprintf("c13s-%d", n)
		cfg := &config.PikeConfig{
			Caches:    []config.CacheConfig{{Name: cacheName, Size: 1000, HitForPass: "5m"}},
			Upstreams: []config.UpstreamConfig{{Name: "c13sup", AcceptEncoding: sc.UpAE, Servers: []config.UpstreamServerConfig{{Addr: c13sUp.URL()}}}},
			Locations: []config.LocationConfig{{Name: "c13sloc", Upstream: "c13sup"}},
			Servers:   []config.ServerConfig{{Addr: addrKey, Locations: []string{"c13sloc"}, Cache: cacheName, CompressMinLength: minLength, CompressContentTypeFilter: filter}},
		}
		sib := config.ServerConfig{Addr: "127.0.2.250:0", Locations: []string{"c13sloc"}, Cache: cacheName, CompressMinLength: "5kb", CompressContentTypeFilter: "octet-stream"}
		switch sc.Sibling {
		case "before":
			cfg.Servers = []config.ServerConfig{sib, cfg.Servers[0]}
		case "after":
			cfg.Servers = append(cfg.Servers, sib)
		}
		return cfg
	}
	if sc.Updated {
		// make sure the server exists with different settings first
		if err := applyConfig(mk("5kb", "nothing-matches-this")); err != nil {
			out.Inconclusive = true
			return out
		}
	}
	if err := applyConfig(mk(sc.MinLength, sc.Filter)); err != nil {
		out.Inconclusive = true
		return out
	}
	addr := listenAddr(addrKey)
	body := genBytes(sc.Size, "text", uint32(n))
	spec := fmt.Sprintf("c13s-%d", n)
	hdr := [][2]string{}
	if sc.Cacheable {
		hdr = append(hdr, [2]string{"Cache-Control", "max-age=300"})
	}
	if sc.CT != "" {
		hdr = append(hdr, [2]string{"Content-Type", sc.CT})
	}
	c13sUp.setSpec(spec, &respSpec{Status: 200, Headers: hdr, Body: body, Encoding: sc.UpEnc})
	defer func() {
		c13sUp.mu.Lock()
		delete(c13sUp.specs, spec)
		c13sUp.logs = nil
		c13sUp.mu.Unlock()
	}()
	thr := map[string]int{"": 1024, "100": 100, "2kb": 2000}[sc.MinLength]
	filter := regexp.MustCompile(`text|javascript|json|wasm|xml|font`)
	if sc.Filter != "" {
		filter = regexp.MustCompile(sc.Filter)
	}
	typeOK := filter.MatchString(sc.CT)
	toks := aeTokens(sc.AE)
	acceptBr, acceptGzip := toks["br"], toks["gzip"]
	upGz := encodeBody("gzip", body)
	h := http.Header{"X-Spec": []string{spec}}
	if sc.AE != "" {
		h.Set("Accept-Encoding", sc.AE)
	}
	uri := fmt.Sprintf("/c13s/%d", n)
	// two requests: the fetching one and (if cacheable) a hit
	for round := 0; round < 2; round++ {
		r := do(c13sCl, reqSpec{Method: "GET", Addr: addr, Host: "c13s.test", URI: uri, Header: h})
		what := fmt.Sprintf("round %d (X-Status %q)", round, r.Header.Get("X-Status"))
		if r.Err != "" || r.Code != 200 {
			out.Violate("C13", "request", "%s: err %q status %d", what, r.Err, r.Code)
			return out
		}
		if r.DecodeErr != "" || !bytes.Equal(r.Body, body) {
			out.Violate("C05", "body", "%s: body does not decode to the original (%s)", what, r.DecodeErr)
			return out
		}
		ce := r.Header.Get("Content-Encoding")
		// which variants are stored: upstream gzip -> gzip; cacheable+compressible+large -> gzip and br
		storedGz := sc.UpEnc == "gzip"
		storedBr := false
		sizes := []int{sc.Size}
		if storedGz {
			sizes = append(sizes, len(upGz))
		}
		small, large := true, true
		for _, s := range sizes {
			if s >= thr {
				small = false
			}
			if s <= thr {
				large = false
			}
		}
		if sc.Cacheable && typeOK && large {
			storedGz, storedBr = true, true
		}
		boundary := !small && !large
		want := ""
		switch {
		case acceptBr && storedBr:
			want = "br"
		case acceptGzip && storedGz:
			want = "gzip"
		case !typeOK || small:
			want = ""
		case boundary:
			want = "?"
		case acceptBr:
			want = "br"
		case acceptGzip:
			want = "gzip"
		}
		if sc.Cacheable && typeOK && boundary {
			want = "?" // whether the entry was pre-compressed is itself open at the boundary
		}
		if want != "?" && ce != want {
			out.Violate("C13", "table-e2e", "%s: server compressMinLength=%q filter=%q (%s path): %d-byte %q body, upstream encoding %q, Accept-Encoding %q -> Content-Encoding %q, the decision table says %q",
				what, sc.MinLength, sc.Filter, map[bool]string{true: "Update", false: "NewServer"}[sc.Updated], sc.Size, sc.CT, sc.UpEnc, sc.AE, ce, want)
		}
		if !acceptBr && !acceptGzip && ce != "" {
			out.Violate("C13", "identity", "%s: client accepts neither gzip nor br but got %q", what, ce)
		}
		if want == "?" {
			out.Class("boundary")
		}
		if !sc.Cacheable {
			break
		}
	}
	out.NonTrivial = sc.AE != "" && (sc.Size > 50)
	out.Class(map[bool]string{true: "update_path", false: "newserver_path"}[sc.Updated])
	if sc.MinLength == "" {
		out.Class("default_min_length")
	}
	if sc.Sibling != "" {
		out.Class("sibling_server_" + sc.Sibling)
	}
	if sc.UpAE != "" {
		out.Class("upstream_accept_encoding_option")
	}
	return out
}

func TestC13Server(t *testing.T) {
	vstat.Run(t, "C13", "netw", genC13s, execC13s)
}

// ---------------------------------------------------------------------
// C14 e2e

type c14sLoc struct {
	Name     string   `json:"name"`
	Hosts    []string `json:"hosts,omitempty"`
	Prefixes []string `json:"prefixes,omitempty"`
}

type c14sScenario struct {
	Locs   []c14sLoc `json:"locs"`
	Listed [][]int   `json:"listed"` // per server: indexes of the locations it lists
	// Between: while the configuration is being applied (locations already replaced, servers not
	// yet updated) each server that is already listening gets one request
	Between bool `json:"between,omitempty"`
	Reqs   []struct {
		Srv  int    `json:"srv"`
		Host string `json:"host"`
		URI  string `json:"uri"`
	} `json:"reqs"`
}

var (
	c14sOnce sync.Once
	c14sUp   *upstreamSrv
	c14sCl   *http.Client
	c14sSeq  int
)

var c14sAddrs = []string{"127.0.3.1:0", "127.0.3.2:0"}

func genC14s(t *rapid.T) c14sScenario {
	sc := c14sScenario{Between: rapid.IntRange(0, 9).Draw(t, "between") < 7}
	// host names are compared as written (a configured host with an upper-case letter is legal)
	hostPool := []string{"aa.test", "bb.test", "cc.test", "AA.test", "Shop.BB.test"}
	prefixPool := []string{"/a", "/a/b", "/b", "/api", "/search?type=img", "/a%20b", "/q?", "/", "/"}
	n := rapid.IntRange(1, 5).Draw(t, "nLocs")
	for i := 0; i < n; i++ {
		l := c14sLoc{Name: fmt.Sprintf("loc%d", i)}
		nh := rapid.IntRange(0, 2).Draw(t, "nHosts")
		for j := 0; j < nh; j++ {
			l.Hosts = append(l.Hosts, rapid.SampledFrom(hostPool).Draw(t, "host"))
		}
		np := rapid.IntRange(0, 2).Draw(t, "nPrefixes")
		for j := 0; j < np; j++ {
			l.Prefixes = append(l.Prefixes, rapid.SampledFrom(prefixPool).Draw(t, "prefix"))
		}
		sc.Locs = append(sc.Locs, l)
	}
	for s := 0; s < 2; s++ {
		var listed []int
		for i := 0; i < n; i++ {
			if rapid.Bool().Draw(t, "listed") {
				listed = append(listed, i)
			}
		}
		if len(listed) == 0 {
			listed = []int{rapid.IntRange(0, n-1).Draw(t, "one")}
		}
		sc.Listed = append(sc.Listed, listed)
	}
	m := rapid.IntRange(3, 10).Draw(t, "nReqs")
	for i := 0; i < m; i++ {
		sc.Reqs = append(sc.Reqs, struct {
			Srv  int    `json:"srv"`
			Host string `json:"host"`
			URI  string `json:"uri"`
		}{rapid.IntRange(0, 1).Draw(t, "srv"), rapid.SampledFrom(append(hostPool, "other.test")).Draw(t, "reqHost"),
			rapid.SampledFrom([]string{"/a/x", "/a/b/x", "/b", "/c", "/ab", "/api/v1?x=/a", "/x?next=/a/b", "/", "/a", "/%61/x", "/%61pi/users", "/search?type=img&q=1", "/search?q=1&type=img", "/a%20b/c", "/a%2Fb/x", "/q?x=1", "/q"}).Draw(t, "reqURI")})
	}
	return sc
}

func c14sMatch(l c14sLoc, host, uri string) bool {
	if len(l.Hosts) > 0 {
		ok := false
		for _, h := range l.Hosts {
			if h == host {
				ok = true
			}
		}
		if !ok {
			return false
		}
	}
	if len(l.Prefixes) > 0 {
		ok := false
		for _, p := range l.Prefixes {
			if strings.HasPrefix(uri, p) {
				ok = true
			}
		}
		if !ok {
			return false
		}
	}
	return true
}

func c14sClass(l c14sLoc) int {
	switch {
	case len(l.Prefixes) > 0 && len(l.Hosts) > 0:
		return 0
	case len(l.Prefixes) > 0:
		return 1
	case len(l.Hosts) > 0:
		return 2
	}
	return 3
}

func execC14s(sc c14sScenario) *vstat.Outcome {
	out := &vstat.Outcome{}
	c14sOnce.Do(func() {
		c14sUp = newUpstream("c14s")
		c14sCl = newClient()
	})
	c14sSeq++
	n := c14sSeq
	cacheName := fmt.Sprintf("c14s-%d", n)
	cfg := &config.PikeConfig{
		Caches:    []config.CacheConfig{{Name: cacheName, Size: 1000, HitForPass: "5m"}},
		Upstreams: []config.UpstreamConfig{{Name: "c14sup", Servers: []config.UpstreamServerConfig{{Addr: c14sUp.URL()}}}},
	}
	for _, l := range sc.Locs {
		// every location marks the requests it handles
		cfg.Locations = append(cfg.Locations, config.LocationConfig{Name: l.Name, Upstream: "c14sup", Hosts: l.Hosts, Prefixes: l.Prefixes, ReqHeaders: []string{"X-Handled-By:" + l.Name}})
	}
	for s, listed := range sc.Listed {
		srv := config.ServerConfig{Addr: c14sAddrs[s], Cache: cacheName}
		for _, i := range listed {
			srv.Locations = append(srv.Locations, sc.Locs[i].Name)
		}
		cfg.Servers = append(cfg.Servers, srv)
	}
	if err := cfg.Validate(); err != nil {
		out.Class("rejected_by_validate")
		return out
	}
	var between func()
	inWindow := 0
	if sc.Between {
		between = func() {
			// what these requests get is not judged (the instance is half-way between two
			// configurations); what matters is that they leave nothing behind
			for s := range sc.Listed {
				if addr := listenAddr(c14sAddrs[s]); addr != "" {
					_ = do(c14sCl, reqSpec{Method: "POST", Addr: addr, Host: "aa.test", URI: "/a/b/x", Body: []byte("x")})
					inWindow++
				}
			}
		}
	}
	if err := applyConfigBetween(cfg, between); err != nil {
		out.Inconclusive = true
		return out
	}
	if inWindow > 0 {
		out.Class("request_between_location_and_server_update")
	}
	nontrivial := false
	for i, rq := range sc.Reqs {
		addr := listenAddr(c14sAddrs[rq.Srv])
		// POST: always forwarded, never cached
		r := do(c14sCl, reqSpec{Method: "POST", Addr: addr, Host: rq.Host, URI: rq.URI, Body: []byte("x")})
		what := fmt.Sprintf("request %d (server %d, host %s, uri %s)", i, rq.Srv, rq.Host, rq.URI)
		if r.Err != "" {
			out.Violate("C14", "transport", "%s: %s", what, r.Err)
			continue
		}
		logs := c14sUp.logsFor(func(l *upLog) bool { return l.ReqID == r.ReqID })
		best, nMatch, classes := 4, 0, map[int]bool{}
		otherWould := false
		for li, l := range sc.Locs {
			listed := false
			for _, x := range sc.Listed[rq.Srv] {
				if x == li {
					listed = true
				}
			}
			if c14sMatch(l, rq.Host, rq.URI) {
				if listed {
					nMatch++
					classes[c14sClass(l)] = true
					if c14sClass(l) < best {
						best = c14sClass(l)
					}
				} else {
					otherWould = true
				}
			}
		}
		if nMatch >= 2 && len(classes) >= 2 || nMatch == 0 && otherWould {
			nontrivial = true
		}
		if nMatch == 0 {
			if r.Code < 500 {
				out.Violate("C14", "no-match-status", "%s: no listed location matches but the client got status %d", what, r.Code)
			}
			if len(logs) != 0 {
				out.Violate("C14", "no-match-upstream", "%s: no listed location matches but the upstream was contacted (handled by %q)", what, logs[0].Header.Get("X-Handled-By"))
			}
			continue
		}
		if r.Code != 200 || len(logs) != 1 {
			out.Violate("C14", "match-not-served", "%s: %d listed location(s) match but the client got status %d (%s), upstream contacts %d", what, nMatch, r.Code, trunc(r.Raw, 80), len(logs))
			continue
		}
		by := logs[0].Header.Values("X-Handled-By")
		if len(by) != 1 {
			out.Violate("C14", "handled-by", "%s: handled by %v", what, by)
			continue
		}
		var chosen *c14sLoc
		chosenListed := false
		for li := range sc.Locs {
			if sc.Locs[li].Name == by[0] {
				chosen = &sc.Locs[li]
				for _, x := range sc.Listed[rq.Srv] {
					if x == li {
						chosenListed = true
					}
				}
			}
		}
		switch {
		case chosen == nil:
			out.Violate("C14", "handled-by", "%s: handled by unknown location %q", what, by[0])
		case !chosenListed:
			out.Violate("C14", "unlisted-location", "%s: handled by location %q which this server does not list", what, by[0])
		case !c14sMatch(*chosen, rq.Host, rq.URI):
			out.Violate("C14", "non-matching-location", "%s: handled by location %q (hosts %v prefixes %v) which does not match", what, by[0], chosen.Hosts, chosen.Prefixes)
		case c14sClass(*chosen) != best:
			out.Violate("C14", "less-specific-location", "%s: handled by %q of class %d although a listed matching location of class %d exists", what, by[0], c14sClass(*chosen), best)
		}
	}
	c14sUp.mu.Lock()
	c14sUp.logs = nil
	c14sUp.mu.Unlock()
	out.NonTrivial = nontrivial
	out.Evals = len(sc.Reqs)
	return out
}

func TestC14Server(t *testing.T) {
	vstat.Run(t, "C14", "netw", genC14s, execC14s)
}
