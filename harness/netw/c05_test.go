//go:build verif

package netw

// C05 — bodies, status and headers are delivered unaltered for every encoding mix.

import (
	"bytes"
	"fmt"
	"net/http"
	"strconv"
	"strings"
	"sync"
	"testing"
	"time"

	"github.com/vicanso/pike/config"
	"github.com/vicanso/pike/store"
	"pgregory.net/rapid"

	"verif/harness/internal/vstat"
)

type c05Scenario struct {
	Shape      string      `json:"shape"`
	Size       int         `json:"size"`
	Seed       uint32      `json:"seed"`
	CT         string      `json:"ct"`
	Status     int         `json:"status"`
	UpEnc      string      `json:"upEnc"`
	AEs        []string    `json:"aes"` // "-" = header absent
	Extra      [][2]string `json:"extra,omitempty"`
	MinLength  string      `json:"minLength,omitempty"`
	Filter     string      `json:"filter,omitempty"`
	GzipLevel  int         `json:"gzipLevel"`
	BrLevel    int         `json:"brLevel"`
	Store      bool        `json:"store,omitempty"`
	UpstreamAE bool        `json:"upstreamAE,omitempty"`
}

// ---- in-memory store with real-time TTL (registered through the verif hook)

type rtStore struct {
	mu   sync.Mutex
	data map[string]rtRec
}
type rtRec struct {
	data []byte
	dead time.Time
}

func (s *rtStore) Get(key []byte) ([]byte, error) {
	s.mu.Lock()
	defer s.mu.Unlock()
	r, ok := s.data[string(key)]
	if !ok || (!r.dead.IsZero() && time.Now().After(r.dead)) {
		return nil, store.ErrNotFound
	}
	return append([]byte{}, r.data...), nil
}
func (s *rtStore) Set(key []byte, data []byte, ttl time.Duration) error {
	s.mu.Lock()
	defer s.mu.Unlock()
	r := rtRec{data: append([]byte{}, data...)}
	if ttl > 0 {
		r.dead = time.Now().Add(ttl)
	}
	s.data[string(key)] = r
	return nil
}
func (s *rtStore) Delete(key []byte) error {
	s.mu.Lock()
	defer s.mu.Unlock()
	delete(s.data, string(key))
	return nil
}
func (s *rtStore) Close() error { return nil }

var (
	c05Once sync.Once
	c05Up   *upstreamSrv
	c05Seq  int
	c05Cl   *http.Client
)

const c05Addr = "127.0.0.1:0"

var c05AEPool = []string{"-", "", "gzip", "br", "gzip, br", "br, gzip", "gzip, deflate, br", "deflate", "identity", "zstd", "lz4, snz", "x-gzip", "compress", "deflate, gzip", "gzip,br", "pack200-gzip", "zstd, br", "pack200-gzip, gzip", "x-br, br", "x-gzip, gzip"}

func genC05(thorough bool) func(t *rapid.T) c05Scenario {
	return func(t *rapid.T) c05Scenario {
		sc := c05Scenario{}
		sc.MinLength = rapid.SampledFrom([]string{"", "1", "100", "1kb", "1mb"}).Draw(t, "minLength")
		thr := map[string]int{"": 1024, "1": 1, "100": 100, "1kb": 1024, "1mb": 1 << 20}[sc.MinLength]
		sizes := []int{0, 1, 2, 50, thr - 1, thr, thr + 1, 2 * thr, 3000, 65536}
		if thorough {
			sizes = append(sizes, 1<<20, 300000)
		}
		sc.Size = rapid.SampledFrom(sizes).Draw(t, "size")
		if sc.Size < 0 {
			sc.Size = 0
		}
		if !thorough && sc.Size > 200000 {
			sc.Size = 70000
		}
		sc.Shape = rapid.SampledFrom([]string{"random", "text", "text", "run"}).Draw(t, "shape")
		sc.Seed = rapid.Uint32().Draw(t, "seed")
		sc.CT = rapid.SampledFrom([]string{"text/plain", "application/json; charset=utf-8", "image/png", "", "text/html", "application/octet-stream", "font/woff2"}).Draw(t, "ct")
		sc.Status = rapid.SampledFrom([]int{200, 200, 200, 201, 203, 404, 410, 500}).Draw(t, "status")
		sc.UpEnc = rapid.SampledFrom([]string{"", "", "gzip", "gzip-multi", "br", "lz4", "zst", "snz"}).Draw(t, "upEnc")
		for i := 0; i < 4; i++ {
			sc.AEs = append(sc.AEs, rapid.SampledFrom(c05AEPool).Draw(t, "ae"))
		}
		extras := [][2]string{{"X-Multi", "a"}, {"X-Multi", "b, c"}, {"x-mixed-CASE", "Value"}, {"X-Utf8", "héllo ✓"}, {"Vary", "Accept-Encoding"}, {"Etag", `"v1"`},
			{"Last-Modified", "Thu, 01 Jan 2015 00:00:00 GMT"}, {"Link", "</a>; rel=preload"}, {"Link", "</b>; rel=preload"}, {"X-Empty", ""}, {"Content-Language", "en"}, {"X-Long", strings.Repeat("v", 3000)}}
		n := rapid.IntRange(0, 5).Draw(t, "nExtra")
		for i := 0; i < n; i++ {
			sc.Extra = append(sc.Extra, extras[rapid.IntRange(0, len(extras)-1).Draw(t, "extra")])
		}
		sc.Filter = rapid.SampledFrom([]string{"", "", "json|xml", "image|text"}).Draw(t, "filter")
		// any unsigned level is a legal configuration; out-of-range ones fall back to the defaults
		sc.GzipLevel = rapid.SampledFrom([]int{0, 1, 2, 3, 4, 5, 6, 7, 8, 9, 9, 10, 11, 12, 100}).Draw(t, "gzipLevel")
		sc.BrLevel = rapid.SampledFrom([]int{0, 1, 2, 3, 4, 5, 6, 7, 8, 9, 10, 11, 11, 12, 100}).Draw(t, "brLevel")
		sc.Store = rapid.IntRange(0, 2).Draw(t, "store") == 0
		sc.UpstreamAE = rapid.Bool().Draw(t, "upstreamAE")
		return sc
	}
}

func c05Config(sc c05Scenario, n int, cacheSuffix string) *config.PikeConfig {
	cacheName := fmt.Sprintf("c05-%d%s", n, cacheSuffix)
	cc := config.CacheConfig{Name: cacheName, Size: 1000, HitForPass: "5m"}
	if sc.Store {
		cc.Store = fmt.Sprintf("verifmem://c05-%d", n)
	}
	up := config.UpstreamConfig{Name: "c05up", Servers: []config.UpstreamServerConfig{{Addr: c05Up.URL()}}}
	if sc.UpstreamAE {
		up.AcceptEncoding = "gzip, br, lz4, zst, snz"
	}
	return &config.PikeConfig{
		Compresses: []config.CompressConfig{{Name: "c05cp", Levels: map[string]uint{"gzip": uint(sc.GzipLevel), "br": uint(sc.BrLevel)}}},
		Caches:     []config.CacheConfig{cc},
		Upstreams:  []config.UpstreamConfig{up},
		Locations:  []config.LocationConfig{{Name: "c05loc", Upstream: "c05up"}},
		Servers: []config.ServerConfig{{Addr: c05Addr, Locations: []string{"c05loc"}, Cache: cacheName, Compress: "c05cp",
			CompressMinLength: sc.MinLength, CompressContentTypeFilter: sc.Filter}},
	}
}

func aeTokens(ae string) map[string]bool {
	m := map[string]bool{}
	for _, p := range strings.Split(ae, ",") {
		p = strings.ToLower(strings.TrimSpace(p))
		if p != "" {
			m[p] = true
		}
	}
	return m
}

var hopByHop = map[string]bool{"Content-Encoding": true, "Content-Length": true, "Connection": true, "Date": true, "Transfer-Encoding": true, "Keep-Alive": true}

func execC05(sc c05Scenario) *vstat.Outcome {
	out := &vstat.Outcome{}
	c05Once.Do(func() {
		c05Up = newUpstream("c05")
		c05Cl = newClient()
	})
	c05Seq++
	n := c05Seq
	var st *rtStore
	if sc.Store {
		st = &rtStore{data: map[string]rtRec{}}
		store.VerifRegisterStore(fmt.Sprintf("verifmem://c05-%d", n), st)
		defer store.VerifUnregisterStore(fmt.Sprintf("verifmem://c05-%d", n))
	}
	if err := applyConfig(c05Config(sc, n, "")); err != nil {
		out.Inconclusive = true
		return out
	}
	addr := listenAddr(c05Addr)
	body := genBytes(sc.Size, sc.Shape, sc.Seed)
	specC := fmt.Sprintf("c05-%d-c", n)
	specU := fmt.Sprintf("c05-%d-u", n)
	hdr := [][2]string{{"Cache-Control", "max-age=300"}}
	if sc.CT != "" {
		hdr = append(hdr, [2]string{"Content-Type", sc.CT})
	}
	hdr = append(hdr, sc.Extra...)
	c05Up.setSpec(specC, &respSpec{Status: sc.Status, Headers: hdr, Body: body, Encoding: sc.UpEnc, DelayMs: 40})
	hdrU := append([][2]string{}, hdr[1:]...)
	c05Up.setSpec(specU, &respSpec{Status: sc.Status, Headers: hdrU, Body: body, Encoding: sc.UpEnc, DelayMs: 30})
	defer func() {
		c05Up.mu.Lock()
		delete(c05Up.specs, specC)
		delete(c05Up.specs, specU)
		c05Up.logs = nil
		c05Up.mu.Unlock()
	}()

	labels := map[string]int{}
	check := func(what, ae string, r *clientResp, wantHdr [][2]string) {
		if r.Err != "" {
			out.Violate("C05", "transport", "%s (AE %q): %s", what, ae, r.Err)
			return
		}
		labels[r.Header.Get("X-Status")]++
		if r.Code != sc.Status {
			out.Violate("C05", "status", "%s (AE %q): status %d, the upstream answered %d (X-Status %q, body %q)", what, ae, r.Code, sc.Status, r.Header.Get("X-Status"), trunc(r.Raw, 120))
			return
		}
		ce := r.Header.Get("Content-Encoding")
		toks := aeTokens(ae)
		if ae == "-" {
			toks = map[string]bool{}
		}
		if ce != "" && !toks[ce] && !(ce == "gzip" && toks["x-gzip"]) {
			out.Violate("C05", "unacceptable-encoding", "%s: client sent Accept-Encoding %q but received Content-Encoding %q (upstream encoding %q)", what, ae, ce, sc.UpEnc)
		}
		if r.DecodeErr != "" {
			out.Violate("C05", "decode", "%s (AE %q): Content-Encoding %q body does not decode: %s", what, ae, ce, r.DecodeErr)
			return
		}
		if !bytes.Equal(r.Body, body) {
			out.Violate("C05", "body", "%s (AE %q, CE %q): decoded body has %d bytes (hash %s), the upstream's body has %d bytes (hash %s); shape %s upstream encoding %q", what, ae, ce, len(r.Body), hashOf(r.Body), len(body), hashOf(body), sc.Shape, sc.UpEnc)
		}
		if cl := r.Header.Get("Content-Length"); cl != "" {
			if v, err := strconv.Atoi(cl); err != nil || v != len(r.Raw) {
				out.Violate("C05", "content-length", "%s (AE %q): Content-Length %q but %d bytes were received", what, ae, cl, len(r.Raw))
			}
		}
		// end-to-end headers preserved (values and order per name)
		want := http.Header{}
		for _, kv := range wantHdr {
			want.Add(kv[0], kv[1])
		}
		for name, vals := range want {
			if hopByHop[name] {
				continue
			}
			got := r.Header.Values(name)
			if len(got) != len(vals) {
				out.Violate("C05", "headers", "%s: header %s has values %q, the upstream sent %q", what, name, got, vals)
				continue
			}
			for i := range vals {
				if got[i] != vals[i] {
					out.Violate("C05", "headers", "%s: header %s has values %q, the upstream sent %q", what, name, got, vals)
					break
				}
			}
		}
	}
	get := func(uri, spec, ae string) *clientResp {
		h := http.Header{"X-Spec": []string{spec}}
		if ae != "-" {
			h.Set("Accept-Encoding", ae)
		}
		return do(c05Cl, reqSpec{Method: "GET", Addr: addr, Host: "c05.test", URI: uri, Header: h})
	}
	uriC := fmt.Sprintf("/c05/%d/c", n)
	uriU := fmt.Sprintf("/c05/%d/u", n)
	// fetching request + concurrent waiter
	var wg sync.WaitGroup
	var r1, r2 *clientResp
	wg.Add(2)
	go func() { defer wg.Done(); r1 = get(uriC, specC, sc.AEs[0]) }()
	go func() { defer wg.Done(); time.Sleep(8 * time.Millisecond); r2 = get(uriC, specC, sc.AEs[1]) }()
	wg.Wait()
	check("fetch", sc.AEs[0], r1, hdr)
	check("concurrent", sc.AEs[1], r2, hdr)
	r3 := get(uriC, specC, sc.AEs[2])
	check("hit", sc.AEs[2], r3, hdr)
	r4 := get(uriC, specC, sc.AEs[3])
	check("hit2", sc.AEs[3], r4, hdr)
	if sc.Store {
		// a fresh dispatcher on the same store: restored from the store
		if err := applyConfig(c05Config(sc, n, "b")); err == nil {
			r5 := get(uriC, specC, sc.AEs[0])
			check("restored", sc.AEs[0], r5, hdr)
			r6 := get(uriC, specC, sc.AEs[1])
			check("restored2", sc.AEs[1], r6, hdr)
			if r5.Header.Get("X-Status") == "hit" && len(c05Up.logsFor(func(l *upLog) bool { return l.ReqID == r5.ReqID })) == 0 {
				out.Class("restored_from_store")
			}
		}
	}
	// uncacheable twin: fetching, then pass
	r7 := get(uriU, specU, sc.AEs[0])
	check("uncacheable-fetch", sc.AEs[0], r7, hdrU)
	r8 := get(uriU, specU, sc.AEs[1])
	check("pass", sc.AEs[1], r8, hdrU)
	r9 := get(uriU, specU, sc.AEs[2])
	check("pass2", sc.AEs[2], r9, hdrU)
	// the stored entry again, after other responses went through the compressors
	r10 := get(uriC, specC, sc.AEs[0])
	check("hit-after-others", sc.AEs[0], r10, hdr)
	r11 := get(uriC, specC, sc.AEs[3])
	check("hit-after-others2", sc.AEs[3], r11, hdr)

	// several uncached answers in the scenario's encoding reach pike at the same time (different
	// URLs, different bodies): each client gets its own
	{
		const par = 6
		bodies := make([][]byte, par)
		var pw sync.WaitGroup
		prs := make([]*clientResp, par)
		for j := 0; j < par; j++ {
			bodies[j] = genBytes(sc.Size+j, sc.Shape, sc.Seed+uint32(j)+1)
			specP := fmt.Sprintf("c05-%d-p%d", n, j)
			c05Up.setSpec(specP, &respSpec{Status: sc.Status, Headers: hdrU, Body: bodies[j], Encoding: sc.UpEnc, DelayMs: 30})
			defer func(specP string) {
				c05Up.mu.Lock()
				delete(c05Up.specs, specP)
				c05Up.mu.Unlock()
			}(specP)
			pw.Add(1)
			go func(j int, specP string) {
				defer pw.Done()
				prs[j] = get(fmt.Sprintf("/c05/%d/p%d", n, j), specP, sc.AEs[j%len(sc.AEs)])
			}(j, specP)
		}
		pw.Wait()
		for j, r := range prs {
			ae := sc.AEs[j%len(sc.AEs)]
			if r.Err != "" || r.Code != sc.Status {
				out.Violate("C05", "status", "concurrent uncached request %d (AE %q): err %q status %d, the upstream answers %d", j, ae, r.Err, r.Code, sc.Status)
				continue
			}
			if r.DecodeErr != "" || !bytes.Equal(r.Body, bodies[j]) {
				out.Violate("C05", "body", "concurrent uncached request %d of %d (AE %q, CE %q, upstream encoding %q): the decoded body has %d bytes (hash %s), the upstream's body for this URL has %d bytes (hash %s) %s", j, par, ae, r.Header.Get("Content-Encoding"), sc.UpEnc, len(r.Body), hashOf(r.Body), len(bodies[j]), hashOf(bodies[j]), r.DecodeErr)
			}
		}
	}

	// a HEAD request first, then GETs of the same URL: what the HEAD fetched (headers, no body)
	// must not become what GET clients are served
	uriH := fmt.Sprintf("/c05/%d/h", n)
	rh := do(c05Cl, reqSpec{Method: "HEAD", Addr: addr, Host: "c05.test", URI: uriH, Header: http.Header{"X-Spec": []string{specC}, "Accept-Encoding": []string{"gzip"}}})
	if rh.Err != "" || rh.Code != sc.Status {
		out.Violate("C05", "status", "HEAD %s: err %q status %d, the upstream answers %d", uriH, rh.Err, rh.Code, sc.Status)
	} else if len(rh.Raw) != 0 {
		out.Violate("C05", "body", "HEAD %s: %d body bytes", uriH, len(rh.Raw))
	}
	check("get-after-head", sc.AEs[1], get(uriH, specC, sc.AEs[1]), hdr)
	check("get-after-head2", sc.AEs[2], get(uriH, specC, sc.AEs[2]), hdr)
	rh2 := do(c05Cl, reqSpec{Method: "HEAD", Addr: addr, Host: "c05.test", URI: uriH, Header: http.Header{"X-Spec": []string{specC}}})
	if rh2.Err != "" || rh2.Code != sc.Status || len(rh2.Raw) != 0 {
		out.Violate("C05", "status", "second HEAD %s: err %q status %d (%d body bytes), the upstream answers %d", uriH, rh2.Err, rh2.Code, len(rh2.Raw), sc.Status)
	}

	// conditional requests: pike answers 304 itself only where the documented rule allows it (GET/HEAD,
	// a 2xx answer with a validator the request matches); everything else is delivered as is
	hasValidator := false
	for _, kv := range hdr {
		if kv[0] == "Etag" || kv[0] == "Last-Modified" {
			hasValidator = true
		}
	}
	for i, cond := range [][2]string{{"If-None-Match", `"v1"`}, {"If-Modified-Since", "Thu, 01 Jan 2015 00:00:00 GMT"}} {
		for j, target := range []struct {
			uri, spec string
			want      [][2]string
		}{{uriC, specC, hdr}, {uriU, specU, hdrU}} {
			ae := sc.AEs[(i+j)%len(sc.AEs)]
			h := http.Header{"X-Spec": []string{target.spec}, cond[0]: []string{cond[1]}}
			if ae != "-" {
				h.Set("Accept-Encoding", ae)
			}
			r := do(c05Cl, reqSpec{Method: "GET", Addr: addr, Host: "c05.test", URI: target.uri, Header: h})
			what := fmt.Sprintf("conditional request (%s) for %s", cond[0], target.uri)
			if r.Err == "" && r.Code == 304 {
				labels["304"]++
				if sc.Status < 200 || sc.Status >= 300 || !hasValidator {
					out.Violate("C05", "status", "%s: answered 304 Not Modified, but the upstream's answer has status %d, %d body bytes and validators=%v: the status code is not preserved", what, sc.Status, len(body), hasValidator)
				}
				if len(r.Raw) != 0 {
					out.Violate("C05", "body", "%s: a 304 answer carries %d body bytes", what, len(r.Raw))
				}
				continue
			}
			check(what, ae, r, target.want)
		}
	}

	thr := map[string]int{"": 1024, "1": 1, "100": 100, "1kb": 1024, "1mb": 1 << 20}[sc.MinLength]
	nonGzipClient := false
	for _, ae := range sc.AEs {
		if ae != "gzip" {
			nonGzipClient = true
		}
	}
	out.NonTrivial = sc.UpEnc != "" || nonGzipClient || (sc.Size >= thr-1 && sc.Size <= thr+1) || sc.Size >= 65536 || sc.Shape == "run"
	out.Class("upenc_" + sc.UpEnc)
	out.Class("shape_" + sc.Shape)
	for l, c := range labels {
		if c > 0 {
			out.Class("label_" + l)
		}
	}
	if labels["hit"] >= 2 {
		out.Class("hits>=2")
	}
	if sc.Size >= 65536 {
		out.Class("size>=64KiB")
	}
	out.Sig = fmt.Sprintf("%s|%d|%s|%d|%s|%v|%s|%s|%v|%v", sc.Shape, sc.Size, sc.CT, sc.Status, sc.UpEnc, sc.AEs, sc.MinLength, sc.Filter, sc.Store, sc.UpstreamAE)
	return out
}

func trunc(b []byte, n int) string {
	if len(b) > n {
		return string(b[:n]) + "..."
	}
	return string(b)
}

func TestC05(t *testing.T) {
	vstat.Run(t, "C05", "netw", genC05(vstat.Tier() == "thorough"), execC05)
}
