//go:build verif

package netw

// Engine N: pike servers started in-process by the exported Reset/Start
// functions (the call sequence of main.update) on loopback ports; harness
// upstreams are net/http servers in the same process with scripted answers
// and a request log.

import (
	"bytes"
	"compress/gzip"
	"crypto/sha256"
	"encoding/hex"
	"errors"
	"fmt"
	"os"
	"io"
	"net"
	"net/http"
	"sort"
	"strconv"
	"strings"
	"sync"
	"sync/atomic"
	"testing"
	"time"

	"github.com/andybalholm/brotli"
	"github.com/golang/snappy"
	"github.com/klauspost/compress/zstd"
	"github.com/pierrec/lz4"
	"github.com/vicanso/pike/cache"
	"github.com/vicanso/pike/compress"
	"github.com/vicanso/pike/config"
	"github.com/vicanso/pike/location"
	pikelog "github.com/vicanso/pike/log"
	"github.com/vicanso/pike/server"
	"github.com/vicanso/pike/upstream"

	"verif/harness/internal/vstat"
)

func TestMain(m *testing.M) {
	pikelog.SetOutputPath("/dev/null")
	vstat.Main(m)
}

// ---------------------------------------------------------------------
// scripted upstream

type respSpec struct {
	Status   int         `json:"status"`
	Headers  [][2]string `json:"headers,omitempty"`
	Body     []byte      `json:"-"`
	Encoding string      `json:"encoding,omitempty"` // "", gzip, br, lz4, zst, snz
	DelayMs  int         `json:"delayMs,omitempty"`
	// Validators: when set the upstream serves the body through http.ServeContent
	// (conditional requests and ranges answered correctly)
	ETag    string    `json:"etag,omitempty"`
	ModTime time.Time `json:"modTime,omitempty"`
	Abort   bool      `json:"abort,omitempty"`
	// CutFirst: the first N answers break off in the middle of the (encoded) body: all headers and
	// half of the announced bytes are sent, then the connection is closed
	CutFirst int `json:"cutFirst,omitempty"`
	// Reset: the request is read and logged, then the connection is reset before any response byte
	Reset bool `json:"reset,omitempty"`
	// DropFirst: header names left out of the first N answers (an upstream whose
	// answer becomes cacheable only later)
	DropFirst      int      `json:"dropFirst,omitempty"`
	DropFirstNames []string `json:"dropFirstNames,omitempty"`
	served         int
}

type upLog struct {
	Spec    string
	ReqID   string
	Method  string
	Host    string
	URI     string
	Header  http.Header
	Body    []byte
	At      time.Time
	Serial  int
	SrvName string
}

type upstreamSrv struct {
	name   string
	mu     sync.Mutex
	ln     net.Listener
	srv    *http.Server
	addr   string // host:port (stable across Stop/Start)
	specs  map[string]*respSpec
	logs   []upLog
	serial int
	up     bool
	health int // count of health checks seen
	custom http.HandlerFunc // replaces the scripted handler (set before traffic starts)
	sick   bool             // the listener stays open but every request (health checks included) is answered 500
}

func (u *upstreamSrv) setSick(v bool) {
	u.mu.Lock()
	u.sick = v
	u.mu.Unlock()
}

var upstreamPortCursor int64

func upstreamIP() string {
	pid := os.Getpid()
	return fmt.Sprintf("127.%d.%d.%d", 64+(pid>>16)&63, (pid>>8)&255, 1+pid&127)
}

func nextUpstreamPort() int {
	n := atomic.AddInt64(&upstreamPortCursor, 1)
	return 10000 + int((int64(os.Getpid()%97)*211+n)%20000)
}

func newUpstream(name string) *upstreamSrv {
	u := &upstreamSrv{name: name, specs: map[string]*respSpec{}}
	if err := u.Start(); err != nil {
		panic(err)
	}
	return u
}

func (u *upstreamSrv) Start() error {
	u.mu.Lock()
	defer u.mu.Unlock()
	if u.up {
		return nil
	}
	addr := u.addr
	var ln net.Listener
	var err error
	if addr == "" {
		// a stopped upstream has to stay unreachable: its address is on a loopback IP of this
		// process alone and its port below the ephemeral range, so that neither another process
		// nor an outgoing connection of this one (TCP self-connect) can ever occupy it
		for i := 0; i < 2000; i++ {
			ln, err = net.Listen("tcp", fmt.Sprintf("%s:%d", upstreamIP(), nextUpstreamPort()))
			if err == nil {
				break
			}
		}
	} else {
		for i := 0; i < 50; i++ {
			ln, err = net.Listen("tcp", addr)
			if err == nil {
				break
			}
			time.Sleep(20 * time.Millisecond)
		}
	}
	if err != nil {
		return err
	}
	u.ln = ln
	u.addr = ln.Addr().String()
	u.srv = &http.Server{Handler: http.HandlerFunc(u.handle)}
	u.up = true
	go func(s *http.Server, l net.Listener) { _ = s.Serve(l) }(u.srv, ln)
	return nil
}

// Stop closes the listener and all connections
func (u *upstreamSrv) Stop() {
	u.mu.Lock()
	s := u.srv
	ln := u.ln
	u.up = false
	u.mu.Unlock()
	// the listener is closed here and now: http.Server.Close only closes listeners its Serve
	// call has registered, which a Stop right after a Start can overtake
	if ln != nil {
		_ = ln.Close()
	}
	if s != nil {
		_ = s.Close()
	}
}

func (u *upstreamSrv) URL() string { return "http://" + u.addr }

func (u *upstreamSrv) setSpec(id string, s *respSpec) {
	u.mu.Lock()
	u.specs[id] = s
	u.mu.Unlock()
}

func (u *upstreamSrv) clear() {
	u.mu.Lock()
	u.specs = map[string]*respSpec{}
	u.logs = nil
	u.mu.Unlock()
}

func (u *upstreamSrv) logsFor(match func(*upLog) bool) []upLog {
	u.mu.Lock()
	defer u.mu.Unlock()
	var res []upLog
	for i := range u.logs {
		if match == nil || match(&u.logs[i]) {
			res = append(res, u.logs[i])
		}
	}
	return res
}

func encodeBody(enc string, body []byte) []byte {
	switch enc {
	case "gzip":
		var b bytes.Buffer
		w, _ := gzip.NewWriterLevel(&b, 6)
		_, _ = w.Write(body)
		_ = w.Close()
		return b.Bytes()
	case "gzip-multi":
		// several concatenated members are one valid gzip stream (RFC 1952 2.2)
		cut := len(body) / 3
		return append(append(encodeBody("gzip", body[:cut]), encodeBody("gzip", body[cut:2*cut])...), encodeBody("gzip", body[2*cut:])...)
	case "br":
		var b bytes.Buffer
		w := brotli.NewWriterLevel(&b, 4)
		_, _ = w.Write(body)
		_ = w.Close()
		return b.Bytes()
	case "snz":
		return snappy.Encode(nil, body)
	case "zst":
		e, _ := zstd.NewWriter(nil, zstd.WithEncoderConcurrency(1))
		defer e.Close()
		return e.EncodeAll(body, nil)
	case "lz4":
		if len(body) == 0 {
			return nil // the lz4 block format has no encoding of the empty input
		}
		buf := make([]byte, lz4.CompressBlockBound(len(body)))
		n, err := lz4.CompressBlock(body, buf, nil)
		if err != nil || n == 0 {
			// incompressible: a literal-only block
			return lz4Literal(body)
		}
		return buf[:n]
	}
	return body
}

func lz4Literal(data []byte) []byte {
	var dst []byte
	ll := len(data)
	if ll >= 15 {
		dst = append(dst, 15<<4)
		n := ll - 15
		for n >= 255 {
			dst = append(dst, 255)
			n -= 255
		}
		dst = append(dst, byte(n))
	} else {
		dst = append(dst, byte(ll)<<4)
	}
	return append(dst, data...)
}

func decodeBody(enc string, data []byte) ([]byte, error) {
	switch enc {
	case "":
		return data, nil
	case "gzip":
		r, err := gzip.NewReader(bytes.NewReader(data))
		if err != nil {
			return nil, err
		}
		return io.ReadAll(r)
	case "br":
		return io.ReadAll(brotli.NewReader(bytes.NewReader(data)))
	}
	return nil, errors.New("unexpected content encoding " + enc)
}

func (u *upstreamSrv) handle(w http.ResponseWriter, r *http.Request) {
	u.mu.Lock()
	custom := u.custom
	sick := u.sick
	u.mu.Unlock()
	if sick {
		w.WriteHeader(500)
		return
	}
	if custom != nil && r.URL.Path != "/health" {
		custom(w, r)
		return
	}
	// health checks: /health, or /ping and / without the headers every harness client sends
	if r.URL.Path == "/health" || r.Header.Get("X-Spec") == "" && r.URL.Path == "/ping" ||
		r.Header.Get("X-Spec") == "" && r.Header.Get("X-Req-Id") == "" && r.URL.Path == "/" {
		u.mu.Lock()
		u.health++
		u.mu.Unlock()
		w.WriteHeader(200)
		return
	}
	body, _ := io.ReadAll(r.Body)
	specID := r.Header.Get("X-Spec")
	u.mu.Lock()
	u.serial++
	serial := u.serial
	spec := u.specs[specID]
	u.logs = append(u.logs, upLog{Spec: specID, ReqID: r.Header.Get("X-Req-Id"), Method: r.Method, Host: r.Host, URI: r.RequestURI,
		Header: r.Header.Clone(), Body: body, At: time.Now(), Serial: serial, SrvName: u.name})
	u.mu.Unlock()
	if spec == nil {
		w.Header().Set("X-Upstream", u.name)
		w.Header().Set("X-Serial", strconv.Itoa(serial))
		w.WriteHeader(200)
		_, _ = w.Write([]byte("default answer of " + u.name + "\n"))
		return
	}
	if spec.DelayMs > 0 {
		time.Sleep(time.Duration(spec.DelayMs) * time.Millisecond)
	}
	if spec.Reset {
		if hj, ok := w.(http.Hijacker); ok {
			if conn, _, err := hj.Hijack(); err == nil {
				if tc, ok := conn.(*net.TCPConn); ok {
					_ = tc.SetLinger(0)
				}
				_ = conn.Close()
				return
			}
		}
		panic(http.ErrAbortHandler)
	}
	h := w.Header()
	u.mu.Lock()
	spec.served++
	dropping := spec.served <= spec.DropFirst
	u.mu.Unlock()
	for _, kv := range spec.Headers {
		skip := false
		if dropping {
			for _, n := range spec.DropFirstNames {
				if http.CanonicalHeaderKey(n) == http.CanonicalHeaderKey(kv[0]) {
					skip = true
				}
			}
		}
		if !skip {
			h.Add(kv[0], kv[1])
		}
	}
	if _, ok := h["Content-Type"]; !ok {
		h["Content-Type"] = nil // no sniffing: the scripted answer has no Content-Type
	}
	h.Set("X-Upstream", u.name)
	h.Set("X-Serial", strconv.Itoa(serial))
	if spec.Abort {
		h.Set("Content-Length", strconv.Itoa(len(spec.Body)+100))
		w.WriteHeader(spec.Status)
		_, _ = w.Write(spec.Body)
		panic(http.ErrAbortHandler)
	}
	if spec.ETag != "" || !spec.ModTime.IsZero() {
		if spec.ETag != "" {
			h.Set("Etag", spec.ETag)
		}
		content := spec.Body
		if spec.Encoding != "" {
			// validators and an encoded representation (the scenarios that use both send no Range)
			content = encodeBody(spec.Encoding, spec.Body)
			h.Set("Content-Encoding", strings.TrimSuffix(spec.Encoding, "-multi"))
		}
		http.ServeContent(w, r, "", spec.ModTime, bytes.NewReader(content))
		return
	}
	data := encodeBody(spec.Encoding, spec.Body)
	if spec.Encoding != "" {
		h.Set("Content-Encoding", strings.TrimSuffix(spec.Encoding, "-multi"))
	}
	h.Set("Content-Length", strconv.Itoa(len(data)))
	u.mu.Lock()
	cut := spec.served <= spec.CutFirst
	u.mu.Unlock()
	if cut && r.Method != http.MethodHead && len(data) > 1 {
		w.WriteHeader(spec.Status)
		_, _ = w.Write(data[:len(data)/2])
		if f, ok := w.(http.Flusher); ok {
			f.Flush()
		}
		panic(http.ErrAbortHandler)
	}
	w.WriteHeader(spec.Status)
	if r.Method != http.MethodHead {
		_, _ = w.Write(data)
	}
}

// ---------------------------------------------------------------------
// pike configuration (the call sequence of main.update)

var applyMu sync.Mutex

func applyConfig(c *config.PikeConfig) error {
	return applyConfigBetween(c, nil)
}

// applyConfigBetween: the update is not atomic for the request handlers; between (if any) runs
// after the locations have been replaced and before the servers are updated, where client
// requests can fall in a running instance
func applyConfigBetween(c *config.PikeConfig, between func()) error {
	applyMu.Lock()
	defer applyMu.Unlock()
	compress.Reset(c.Compresses)
	cache.ResetDispatchers(c.Caches)
	upstream.ResetWithOnStats(c.Upstreams, func(upstream.StatusInfo) {})
	location.Reset(c.Locations)
	if between != nil {
		between()
	}
	server.Reset(c.Servers)
	return server.Start()
}

func listenAddr(addr string) string {
	s := server.Get(addr)
	if s == nil {
		return ""
	}
	return s.GetListenAddr()
}

// ---------------------------------------------------------------------
// client

type clientResp struct {
	Err       string
	Code      int
	Header    http.Header
	Raw       []byte // bytes on the wire (after transfer decoding)
	Body      []byte // decoded per Content-Encoding
	DecodeErr string
	Start     time.Time
	End       time.Time
	ReqID     string
}

var reqSeq int64
var reqSeqMu sync.Mutex

func nextReqID() string {
	reqSeqMu.Lock()
	defer reqSeqMu.Unlock()
	reqSeq++
	return "r" + strconv.FormatInt(reqSeq, 10)
}

func newClient() *http.Client {
	tr := &http.Transport{DisableCompression: true, MaxIdleConnsPerHost: 16, IdleConnTimeout: 5 * time.Second}
	return &http.Client{Transport: tr, Timeout: 30 * time.Second, CheckRedirect: func(*http.Request, []*http.Request) error { return http.ErrUseLastResponse }}
}

type reqSpec struct {
	Method string
	Addr   string // pike listen address
	Host   string
	URI    string
	Header http.Header
	Body   []byte
}

func do(cl *http.Client, rs reqSpec) *clientResp {
	res := &clientResp{ReqID: nextReqID(), Start: time.Now()}
	var body io.Reader
	if rs.Body != nil {
		body = bytes.NewReader(rs.Body)
	}
	req, err := http.NewRequest(rs.Method, "http://"+rs.Addr+rs.URI, body)
	if err != nil {
		res.Err = err.Error()
		return res
	}
	for k, vs := range rs.Header {
		for _, v := range vs {
			req.Header.Add(k, v)
		}
	}
	if rs.Host != "" {
		req.Host = rs.Host
	}
	req.Header.Set("X-Req-Id", res.ReqID)
	if _, ok := rs.Header["Accept-Encoding"]; !ok {
		// net/http would add "gzip" by itself unless compression is disabled on the transport (it is)
	}
	resp, err := cl.Do(req)
	if err != nil {
		res.Err = err.Error()
		res.End = time.Now()
		return res
	}
	defer resp.Body.Close()
	raw, err := io.ReadAll(resp.Body)
	res.End = time.Now()
	if err != nil {
		res.Err = "read body: " + err.Error()
	}
	res.Code, res.Header, res.Raw = resp.StatusCode, resp.Header, raw
	dec, derr := decodeBody(resp.Header.Get("Content-Encoding"), raw)
	if derr != nil {
		res.DecodeErr = derr.Error()
	}
	res.Body = dec
	return res
}

func hashOf(b []byte) string {
	s := sha256.Sum256(b)
	return hex.EncodeToString(s[:8])
}

func sortedCopy(s []string) []string {
	c := append([]string{}, s...)
	sort.Strings(c)
	return c
}

func genBytes(n int, shape string, seed uint32) []byte {
	b := make([]byte, n)
	x := uint64(seed)*2862933555777941757 + 3037000493
	next := func() uint64 { x = x*2862933555777941757 + 3037000493; return x >> 33 }
	switch shape {
	case "random":
		for i := range b {
			b[i] = byte(next())
		}
	case "run":
		c := byte('a' + seed%26)
		for i := range b {
			b[i] = c
		}
	default: // text
		words := []string{"lorem ", "ipsum ", "dolor ", "{\"k\":\"v\"}", "\n", "sit amet ", "αβγ "}
		i := 0
		for i < len(b) {
			i += copy(b[i:], words[next()%uint64(len(words))])
		}
	}
	return b
}

var _ = fmt.Sprintf
var _ = strings.TrimSpace
