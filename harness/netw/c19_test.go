//go:build verif

package netw

// C19 — traffic goes only to healthy upstream servers, backups last.

import (
	"fmt"
	"net/http"
	"os"
	"path/filepath"
	"sync"
	"testing"
	"time"

	"github.com/vicanso/pike/config"
	"github.com/vicanso/pike/upstream"
	"pgregory.net/rapid"

	"verif/harness/internal/vstat"
)

type c19Scenario struct {
	N       int    `json:"n"`
	Backup  []bool `json:"backup"`
	Policy  string `json:"policy"`
	HTTP    bool   `json:"httpCheck"` // health check by HTTP path instead of TCP connect
	Events  []int  `json:"events"`    // each event flips server Events[i] % N
	InitUp  []bool `json:"initUp"`
	Path    string `json:"path,omitempty"` // health-check path when HTTP (default /health)
	Sick    bool   `json:"sick,omitempty"` // HTTP only: a server that is down keeps its listener open and answers 500 to everything
	// Saved: the configuration goes through pike's own save and read (config.Write, config.Read on a
	// file) before it is applied, as it does when it is edited through the admin page
	Saved bool `json:"saved,omitempty"`
}

var (
	c19CfgOnce sync.Once
	c19CfgFile string
	c19Once    sync.Once
	c19Ups  []*upstreamSrv
	c19Cl   *http.Client
	c19Seq  int
)

const c19Addr = "127.0.0.3:0"

func c19Setup() {
	c19Once.Do(func() {
		for i := 0; i < 4; i++ {
			c19Ups = append(c19Ups, newUpstream(fmt.Sprintf("s%d", i)))
		}
		c19Cl = newClient()
	})
}

func genC19(t *rapid.T) c19Scenario {
	sc := c19Scenario{N: rapid.IntRange(1, 4).Draw(t, "n")}
	for i := 0; i < sc.N; i++ {
		sc.Backup = append(sc.Backup, rapid.IntRange(0, 2).Draw(t, "backup") == 0)
		sc.InitUp = append(sc.InitUp, rapid.IntRange(0, 3).Draw(t, "initUp") > 0)
	}
	sc.Policy = rapid.SampledFrom([]string{"", "roundRobin", "roundRobin", "random", "first", "leastconn"}).Draw(t, "policy")
	sc.HTTP = rapid.Bool().Draw(t, "httpCheck")
	if sc.HTTP {
		sc.Path = rapid.SampledFrom([]string{"/health", "/health", "/", "/ping"}).Draw(t, "path")
		sc.Sick = rapid.Bool().Draw(t, "sick")
	}
	sc.Saved = rapid.IntRange(0, 2).Draw(t, "saved") == 0
	ne := rapid.IntRange(3, 10).Draw(t, "nEvents")
	for i := 0; i < ne; i++ {
		sc.Events = append(sc.Events, rapid.IntRange(0, sc.N-1).Draw(t, "event"))
		if rapid.IntRange(0, 3).Draw(t, "fault") == 0 {
			// 100+: a single request fails in the proxy (the server resets the connection while it
			// answers) although the health checks of every server keep passing
			sc.Events = append(sc.Events, 100+rapid.IntRange(0, 1).Draw(t, "faultKind"))
		}
	}
	return sc
}

func c19Apply(sc c19Scenario, seq int) (string, error) {
	up := config.UpstreamConfig{Name: "c19up", Policy: sc.Policy}
	if sc.HTTP {
		up.HealthCheck = "/health"
		if sc.Path != "" {
			up.HealthCheck = sc.Path
		}
	}
	for i := 0; i < sc.N; i++ {
		up.Servers = append(up.Servers, config.UpstreamServerConfig{Addr: c19Ups[i].URL(), Backup: sc.Backup[i]})
	}
	cacheName := fmt.Sprintf("c19-%d", seq)
	cfg := &config.PikeConfig{
		Caches:    []config.CacheConfig{{Name: cacheName, Size: 100, HitForPass: "5m"}},
		Upstreams: []config.UpstreamConfig{up},
		Locations: []config.LocationConfig{{Name: "c19loc", Upstream: "c19up", ProxyTimeout: "5s"}},
		Servers:   []config.ServerConfig{{Addr: c19Addr, Locations: []string{"c19loc"}, Cache: cacheName}},
	}
	if sc.Saved {
		c19CfgOnce.Do(func() {
			d, err := os.MkdirTemp(".", "c19-config-")
			if err == nil {
				c19CfgFile, _ = filepath.Abs(filepath.Join(d, "pike.yml"))
			}
		})
		if c19CfgFile != "" {
			_ = os.Remove(c19CfgFile)
			if err := config.InitDefaultClient(c19CfgFile); err != nil {
				return "", err
			}
			if err := config.Write(cfg); err != nil {
				return "", err
			}
			back, err := config.Read()
			if err != nil {
				return "", err
			}
			cfg = back
		}
	}
	if err := applyConfig(cfg); err != nil {
		return "", err
	}
	return listenAddr(c19Addr), nil
}

// c19Phase sends k sequential uncacheable requests and judges the routing
func c19Phase(out *vstat.Outcome, sc c19Scenario, addr string, up []bool, phase string) (allDown, backupOnly bool) {
	primUp, backUp := 0, 0
	for i := 0; i < sc.N; i++ {
		if up[i] {
			if sc.Backup[i] {
				backUp++
			} else {
				primUp++
			}
		}
	}
	counts := make([]int, sc.N)
	k := 3*sc.N + 1
	for j := 0; j < k; j++ {
		start := time.Now()
		r := do(c19Cl, reqSpec{Method: "POST", Addr: addr, Host: "c19.test", URI: fmt.Sprintf("/c19/%s/%d", phase, j), Body: []byte("x")})
		took := time.Since(start)
		if r.Err != "" {
			out.Violate("C19", "transport", "%s request %d: %s", phase, j, r.Err)
			return
		}
		if primUp+backUp == 0 {
			if r.Code < 500 {
				out.Violate("C19", "no-server", "%s: no server is healthy but request %d got status %d", phase, j, r.Code)
			}
			if took > 10*time.Second {
				out.Violate("C19", "no-server-slow", "%s: no server is healthy and the error took %s", phase, took)
			}
			continue
		}
		if r.Code != 200 {
			out.Violate("C19", "failed-with-healthy-server", "%s: %d primary and %d backup server(s) are healthy but request %d got status %d (%s)", phase, primUp, backUp, j, r.Code, trunc(r.Raw, 100))
			continue
		}
		name := r.Header.Get("X-Upstream")
		idx := -1
		for i := 0; i < sc.N; i++ {
			if c19Ups[i].name == name {
				idx = i
			}
		}
		if idx < 0 {
			out.Violate("C19", "unknown-server", "%s: answered by %q", phase, name)
			continue
		}
		counts[idx]++
		if !up[idx] {
			out.Violate("C19", "down-server-used", "%s: request %d was answered by %s which is down", phase, j, name)
		}
		if sc.Backup[idx] && primUp > 0 {
			out.Violate("C19", "backup-used", "%s: request %d went to backup %s although %d primary server(s) are healthy", phase, j, name, primUp)
		}
	}
	if sc.Policy == "roundRobin" && primUp+backUp > 0 {
		min, max := 1<<30, 0
		for i := 0; i < sc.N; i++ {
			eligible := up[i] && (sc.Backup[i] == (primUp == 0))
			if !eligible {
				continue
			}
			if counts[i] < min {
				min = counts[i]
			}
			if counts[i] > max {
				max = counts[i]
			}
		}
		if max-min > 1 {
			out.Violate("C19", "round-robin-uneven", "%s: %d sequential requests were split %v over the healthy servers (up=%v backup=%v)", phase, k, counts, up, sc.Backup)
		}
	}
	if primUp+backUp == 0 {
		// concurrent requests for one URL while nothing is healthy: every one of them gets its 5xx promptly
		for round := 0; round < 3; round++ {
			const burst = 32
			type res struct {
				code int
				err  string
			}
			done := make(chan res, burst)
			uri := fmt.Sprintf("/c19/%s/burst%d", phase, round)
			for g := 0; g < burst; g++ {
				go func() {
					r := do(c19Cl, reqSpec{Method: "GET", Addr: addr, Host: "c19.test", URI: uri})
					done <- res{r.Code, r.Err}
				}()
			}
			answered := 0
			timeout := time.After(12 * time.Second)
		collect:
			for answered < burst {
				select {
				case r := <-done:
					answered++
					if r.err == "" && r.code < 500 {
						out.Violate("C19", "no-server", "%s: no server is healthy but a request of a concurrent burst got status %d", phase, r.code)
					}
				case <-timeout:
					break collect
				}
			}
			if answered < burst {
				out.Violate("C19", "no-server-hang", "%s: no server is healthy; %d of %d concurrent GET requests for one URL got no answer within 12 s", phase, burst-answered, burst)
				break
			}
		}
		// nothing may have reached any upstream
		for i := 0; i < sc.N; i++ {
			if n := len(c19Ups[i].logsFor(func(l *upLog) bool { return l.URI != "" && (l.Method == "POST" || l.Method == "GET") && contains(l.URI, "/"+phase+"/") })); n != 0 {
				out.Violate("C19", "no-server", "%s: no server is healthy but %s logged %d request(s)", phase, c19Ups[i].name, n)
			}
		}
	}
	return primUp+backUp == 0, primUp == 0 && backUp > 0
}

func contains(s, sub string) bool {
	return len(sub) == 0 || (len(s) >= len(sub) && (func() bool {
		for i := 0; i+len(sub) <= len(s); i++ {
			if s[i:i+len(sub)] == sub {
				return true
			}
		}
		return false
	})())
}

func execC19(sc c19Scenario) *vstat.Outcome {
	out := &vstat.Outcome{}
	c19Setup()
	c19Seq++
	up := make([]bool, 4)
	sickMode := sc.HTTP && sc.Sick
	defer func() {
		for i := 0; i < 4; i++ {
			c19Ups[i].setSick(false)
		}
	}()
	for i := 0; i < 4; i++ {
		want := i < sc.N && sc.InitUp[i]
		c19Ups[i].setSick(false)
		if want || sickMode && i < sc.N {
			if err := c19Ups[i].Start(); err != nil {
				out.Inconclusive = true
				return out
			}
			c19Ups[i].setSick(!want)
		} else {
			c19Ups[i].Stop()
		}
		up[i] = want
		c19Ups[i].clear()
	}
	addr, err := c19Apply(sc, c19Seq)
	if err != nil {
		out.Inconclusive = true
		return out
	}
	hu := upstream.Get("c19up")
	if hu == nil {
		out.Violate("C17", "apply", "upstream c19up not registered after applying the configuration")
		return out
	}
	sawAllDown, sawBackupOnly, sawRecovery := false, false, false
	prevAllDown := false
	// settle: run the function the periodic checker runs, until pike's own view
	// of the servers equals the real up/down state (the periodic checker may
	// interleave with a stale result, so one forced call is not always enough)
	settle := func() bool {
		for try := 0; try < 40; try++ {
			hu.HTTPUpstream.DoHealthCheck()
			ok := true
			for _, stt := range hu.GetServerStatusList() {
				for i := 0; i < sc.N; i++ {
					if stt.Addr == c19Ups[i].URL() && stt.Healthy != up[i] {
						ok = false
					}
				}
			}
			if ok {
				return true
			}
			time.Sleep(50 * time.Millisecond)
		}
		return false
	}
	judge := func(phase string) {
		var tmp *vstat.Outcome
		for attempt := 0; attempt < 3; attempt++ {
			settled := settle()
			tmp = &vstat.Outcome{}
			allDown, backupOnly := c19Phase(tmp, sc, addr, up, fmt.Sprintf("%s-a%d", phase, attempt))
			if len(tmp.Violations) == 0 || !settled && attempt == 2 {
				if allDown {
					sawAllDown = true
				}
				if backupOnly {
					sawBackupOnly = true
				}
				if prevAllDown && !allDown {
					sawRecovery = true
				}
				prevAllDown = allDown
				if len(tmp.Violations) == 0 {
					return
				}
			}
			// a failure right after a settle may come from a stale periodic result: settle again and repeat the phase
			out.Class("phase_repeated_after_resettle")
		}
		out.Violations = append(out.Violations, tmp.Violations...)
	}
	// the initial synchronous health check has already settled the state
	judge(fmt.Sprintf("c%d-init", c19Seq))
	faultRound := func(phase string) *vstat.Outcome {
		spec := "c19-reset"
		for i := 0; i < sc.N; i++ {
			c19Ups[i].setSpec(spec, &respSpec{Status: 200, Reset: true})
		}
		_ = do(c19Cl, reqSpec{Method: "POST", Addr: addr, Host: "c19.test", URI: "/c19/" + phase + "/fault", Header: http.Header{"X-Spec": []string{spec}}, Body: []byte("x")})
		tmp := &vstat.Outcome{}
		// no forced health check here: the servers are exactly as healthy as before
		c19Phase(tmp, sc, addr, up, phase)
		return tmp
	}
	for e, ev := range sc.Events {
		if ev >= 100 {
			anyUp := false
			for i := 0; i < sc.N; i++ {
				anyUp = anyUp || up[i]
			}
			if !anyUp {
				continue
			}
			tmp := faultRound(fmt.Sprintf("c%d-e%d-afterfault", c19Seq, e))
			if len(tmp.Violations) > 0 {
				// a periodic check that overlapped the previous flip may have left a stale view: settle and repeat once
				out.Class("fault_round_repeated_after_resettle")
				settle()
				tmp = faultRound(fmt.Sprintf("c%d-e%d-afterfault2", c19Seq, e))
			}
			for _, v := range tmp.Violations {
				v.Msg = "after one request failed in the proxy (connection reset by the server while answering; its health checks pass): " + v.Msg
				out.Violations = append(out.Violations, v)
			}
			out.Class("request_failed_at_the_proxy")
			if len(out.Violations) > 0 {
				break
			}
			continue
		}
		i := ev % sc.N
		switch {
		case sickMode:
			c19Ups[i].setSick(up[i])
		case up[i]:
			c19Ups[i].Stop()
		default:
			if err := c19Ups[i].Start(); err != nil {
				out.Inconclusive = true
				return out
			}
		}
		up[i] = !up[i]
		judge(fmt.Sprintf("c%d-e%d", c19Seq, e))
		if len(out.Violations) > 0 {
			break
		}
	}
	out.NonTrivial = sawBackupOnly && sawAllDown && sawRecovery
	if sawAllDown {
		out.Class("all_down_phase")
	}
	if sawBackupOnly {
		out.Class("backup_only_phase")
	}
	if sawRecovery {
		out.Class("recovery_after_all_down")
	}
	out.Class("policy_" + sc.Policy)
	if sc.HTTP {
		out.Class("http_check_" + sc.Path)
	}
	if sickMode {
		out.Class("down_means_listening_but_failing")
	}
	return out
}

func TestC19(t *testing.T) {
	vstat.Run(t, "C19", "netw", genC19, execC19)
}

func c19StatusList() string {
	hu := upstream.Get("c19up")
	if hu == nil {
		return "no upstream"
	}
	res := ""
	for _, st := range hu.GetServerStatusList() {
		res += fmt.Sprintf("%s healthy=%v; ", st.Addr, st.Healthy)
	}
	return res
}

// TestC19Unforced: recovery must happen by itself (no forced check): the
// periodic checker of pike picks the server up within a few periods (5 s each).
func TestC19Unforced(t *testing.T) {
	rec := vstat.For("C19", t.Name(), "netw")
	c19Setup()
	shard, nshards := vstat.Shard()
	post := func(addr, uri string) *clientResp {
		return do(c19Cl, reqSpec{Method: "POST", Addr: addr, Host: "c19.test", URI: uri, Body: []byte("x")})
	}
	// waitFor polls until a request is answered 200 by the wanted server (30 s = 6 health-check periods)
	waitFor := func(addr, uri, server string) bool {
		deadline := time.Now().Add(30 * time.Second)
		for time.Now().Before(deadline) {
			r := post(addr, uri)
			if r.Err == "" && r.Code == 200 && (server == "" || r.Header.Get("X-Upstream") == server) {
				return true
			}
			time.Sleep(400 * time.Millisecond)
		}
		return false
	}
	for variant := 0; variant < 4; variant++ {
		if nshards > 1 && variant%nshards != shard {
			continue
		}
		sc := c19Scenario{N: 2, Backup: []bool{false, variant%2 == 1}, Policy: "roundRobin", HTTP: variant%2 == 1, InitUp: []bool{variant >= 2, variant >= 2}}
		out := &vstat.Outcome{NonTrivial: true}
		c19Seq++
		for i := 0; i < 4; i++ {
			c19Ups[i].Stop()
			c19Ups[i].clear()
		}
		if variant >= 2 {
			_ = c19Ups[0].Start()
			_ = c19Ups[1].Start()
		}
		addr, err := c19Apply(sc, c19Seq)
		if err != nil {
			t.Skipf("apply: %v", err)
		}
		if variant < 2 {
			// nothing is up: 5xx; then the servers come back and traffic must resume by itself
			r := post(addr, "/c19/unforced/0")
			if r.Err == "" && r.Code < 500 {
				out.Violate("C19", "no-server", "no server is up but the request got status %d (%s); pike's view: %s", r.Code, trunc(r.Raw, 200), c19StatusList())
			}
			_ = c19Ups[0].Start()
			_ = c19Ups[1].Start()
			if !waitFor(addr, "/c19/unforced/1", "") {
				out.Violate("C19", "no-recovery", "servers came back but traffic did not resume by itself within 30 s (6 health-check periods)")
			}
			out.Class("unforced_recovery")
		} else {
			// the same configuration is applied again (a reload that leaves the upstream
			// unchanged), then the first server fails: the periodic checker alone must
			// notice it and move the traffic to the other server (the backup in variant 3)
			if _, err := c19Apply(sc, c19Seq); err != nil {
				t.Skipf("apply: %v", err)
			}
			if r := post(addr, "/c19/unforced/2"); r.Err != "" || r.Code != 200 {
				out.Violate("C19", "failed-with-healthy-server", "both servers are up but the request got %d %s", r.Code, r.Err)
			}
			c19Ups[0].Stop()
			if !waitFor(addr, "/c19/unforced/3", c19Ups[1].name) {
				out.Violate("C19", "no-failover", "after a reload with an unchanged upstream the first server went down, but 30 s later requests are still not served by the remaining healthy server")
			}
			// and once the checker has settled, no request may fail any more
			time.Sleep(6 * time.Second)
			for j := 0; j < 6; j++ {
				if r := post(addr, fmt.Sprintf("/c19/unforced/4-%d", j)); r.Err != "" || r.Code != 200 {
					out.Violate("C19", "down-server-used", "11 s after the first server went down request %d still fails with %d %s", j, r.Code, r.Err)
					break
				}
			}
			_ = c19Ups[0].Start()
			if !waitFor(addr, "/c19/unforced/5", c19Ups[0].name) {
				out.Violate("C19", "no-recovery", "the first server came back but got no traffic within 30 s")
			}
			out.Class("unforced_failover_after_unchanged_reload")
		}
		out.Sig = fmt.Sprintf("unforced-%d", variant)
		if !vstat.RunOne(t, rec, sc, out) {
			return
		}
	}
}
