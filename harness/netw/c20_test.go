//go:build verif

package netw

// C20 — concurrent requests, purges and reloads never corrupt shared state.
// Built with -race; free-running client goroutines; generated workload phases.

import (
	"bytes"
	"fmt"
	"hash/fnv"
	"math/rand"
	"net/http"
	"os"
	"path/filepath"
	"regexp"
	"strings"
	"sync"
	"sync/atomic"
	"testing"
	"time"

	"github.com/vicanso/pike/cache"
	"github.com/vicanso/pike/config"
	"pgregory.net/rapid"

	"verif/harness/internal/vstat"
)

type c20Phase struct {
	Clients     int   `json:"clients"`
	Keys        int   `json:"keys"`
	HotPct      int   `json:"hotPct"`      // share of requests on the 2 hottest keys
	UncachePct  int   `json:"uncachePct"`  // share of keys that are uncacheable
	CondPct     int   `json:"condPct"`     // share of requests with a conditional header
	PurgeEvery  int   `json:"purgeEveryMs"` // 0 = none
	ReloadEvery int   `json:"reloadEveryMs"`
	BurstMode   bool  `json:"burstMode"` // burst -> silence (past expiry) -> burst
	DurationMs  int   `json:"durationMs"`
	Seed        int64 `json:"seed"`
	BigBodies   bool  `json:"bigBodies"`
}

var (
	c20Once sync.Once
	c20Up   *upstreamSrv
	c20Seq  int
)

const c20Addr = "127.0.0.4:0"

var c20AEs = []string{"", "gzip", "br", "gzip, br", "identity", "deflate"}

func c20Body(key string, big bool) []byte {
	h := fnv.New32a()
	_, _ = h.Write([]byte(key))
	n := int(h.Sum32()%3000) + 20
	if big {
		n += 4000
	}
	unit := []byte("KEY " + key + " lorem ipsum dolor sit amet\n")
	b := make([]byte, 0, n+len(unit))
	for len(b) < n {
		b = append(b, unit...)
	}
	return b[:n]
}

var (
	c20LateMu sync.Mutex
	c20Late   = map[string]int{}
)

func c20Handler(w http.ResponseWriter, r *http.Request) {
	// /c20/<phase>/<class><idx>
	parts := strings.Split(strings.TrimPrefix(r.URL.Path, "/"), "/")
	if r.URL.Path == "/c20health" {
		// the health-check path of some configuration variants: a check that takes a little while
		time.Sleep(15 * time.Millisecond)
	}
	if len(parts) < 3 {
		w.WriteHeader(200)
		return
	}
	key := parts[2]
	big := strings.HasSuffix(parts[1], "b")
	body := c20Body(key, big)
	h := w.Header()
	h.Set("Content-Type", "text/plain")
	h.Set("X-Key", key)
	if strings.HasPrefix(key, "c") {
		h.Set("Cache-Control", "max-age=1")
	}
	if strings.HasPrefix(key, "l") {
		// becomes cacheable only after a few answers (while the key is in hit-for-pass)
		c20LateMu.Lock()
		c20Late[parts[1]+"/"+key]++
		n := c20Late[parts[1]+"/"+key]
		c20LateMu.Unlock()
		if n > 2 {
			h.Set("Cache-Control", "max-age=1")
		}
	}
	h.Set("Etag", `"`+key+`"`)
	if r.Header.Get("If-None-Match") == `"`+key+`"` {
		w.WriteHeader(304)
		return
	}
	time.Sleep(time.Duration(len(key)%3) * time.Millisecond)
	if strings.HasSuffix(key, "3") || strings.HasSuffix(key, "7") {
		// some resources come zst-encoded from the upstream (pike decodes them on receipt)
		h.Set("Content-Encoding", "zst")
		body = encodeBody("zst", body)
	}
	w.WriteHeader(200)
	if r.Method != http.MethodHead {
		_, _ = w.Write(body)
	}
}

func c20Config(variant int, seq int) *config.PikeConfig {
	cacheName := "c20cache"
	// half of the traffic goes through a rewrite rule with two captures
	loc := config.LocationConfig{Name: "c20loc", Upstream: "c20up", Rewrites: []string{"/c20r/*/*:/c20/$1/$2"}}
	srv := config.ServerConfig{Addr: c20Addr, Locations: []string{"c20loc"}, Cache: cacheName, Compress: "c20cp"}
	cp := config.CompressConfig{Name: "c20cp", Levels: map[string]uint{"gzip": 6, "br": 4}}
	if variant%2 == 1 {
		loc.RespHeaders = []string{"X-Variant:1"}
		loc.ReqHeaders = []string{"X-From:pike"}
		srv.CompressMinLength = "100"
		srv.CompressContentTypeFilter = "text|json"
		cp.Levels = map[string]uint{"gzip": 1, "br": 1}
	} else {
		srv.CompressMinLength = "2kb"
	}
	// the definition of the upstream (which stays in use under the same name) changes with every
	// second reload: its health check, then its policy
	up := config.UpstreamConfig{Name: "c20up", Servers: []config.UpstreamServerConfig{{Addr: c20Up.URL()}}}
	switch variant % 4 {
	case 2:
		up.HealthCheck = "/c20health"
	case 3:
		up.HealthCheck, up.Policy = "/c20health", "first"
	}
	return &config.PikeConfig{
		Compresses: []config.CompressConfig{cp},
		Caches:     []config.CacheConfig{{Name: cacheName, Size: 64, HitForPass: "1s"}},
		Upstreams:  []config.UpstreamConfig{up},
		Locations:  []config.LocationConfig{loc},
		Servers:    []config.ServerConfig{srv},
	}
}

func genC20(t *rapid.T) c20Phase {
	dur := 2000
	if vstat.Tier() == "thorough" {
		dur = 5000
	}
	ph := c20Phase{
		Clients:     rapid.IntRange(30, 120).Draw(t, "clients"),
		Keys:        rapid.IntRange(4, 60).Draw(t, "keys"),
		HotPct:      rapid.IntRange(0, 90).Draw(t, "hotPct"),
		UncachePct:  rapid.IntRange(0, 50).Draw(t, "uncachePct"),
		CondPct:     rapid.IntRange(0, 40).Draw(t, "condPct"),
		PurgeEvery:  rapid.SampledFrom([]int{0, 5, 20, 100}).Draw(t, "purgeEvery"),
		ReloadEvery: rapid.SampledFrom([]int{0, 50, 150, 400}).Draw(t, "reloadEvery"),
		BurstMode:   rapid.Bool().Draw(t, "burstMode"),
		DurationMs:  dur,
		Seed:        rapid.Int64().Draw(t, "seed"),
		BigBodies:   rapid.Bool().Draw(t, "bigBodies"),
	}
	if ph.PurgeEvery == 0 && ph.ReloadEvery == 0 {
		ph.ReloadEvery = 150 // every phase has purges or reloads
	}
	if ph.UncachePct == 0 {
		ph.UncachePct = 10 // and some pass-through traffic
	}
	return ph
}

type c20Stats struct {
	reqs, hits, fetching, passes, waitersMaybe, notModified, errors int64
	purges, reloads                                                  int64
}

func execC20(ph c20Phase) *vstat.Outcome {
	out := &vstat.Outcome{}
	c20Once.Do(func() {
		c20Up = newUpstream("c20")
		c20Up.mu.Lock()
		c20Up.custom = c20Handler
		c20Up.mu.Unlock()
	})
	c20Seq++
	seq := c20Seq
	if err := applyConfig(c20Config(0, seq)); err != nil {
		out.Inconclusive = true
		return out
	}
	addr := listenAddr(c20Addr)
	phaseTag := fmt.Sprintf("p%d", seq)
	if ph.BigBodies {
		phaseTag += "b"
	}
	keys := make([]string, ph.Keys)
	for i := range keys {
		class := "c"
		if i*100/ph.Keys < ph.UncachePct {
			class = "u"
		} else if i%5 == 4 {
			class = "l" // uncacheable at first, cacheable later
		}
		if i == 1 && ph.Keys >= 3 {
			class = "l" // one of the two hot keys
		}
		keys[i] = fmt.Sprintf("%s%d", class, i)
	}
	var st c20Stats
	var violMu sync.Mutex
	viol := func(oracle, format string, args ...interface{}) {
		violMu.Lock()
		defer violMu.Unlock()
		if len(out.Violations) < 10 {
			out.Violate("C20", oracle, format, args...)
		}
	}
	stop := make(chan struct{})
	var wg sync.WaitGroup
	deadline := time.Now().Add(time.Duration(ph.DurationMs) * time.Millisecond)
	for c := 0; c < ph.Clients; c++ {
		wg.Add(1)
		go func(c int) {
			defer wg.Done()
			rng := rand.New(rand.NewSource(ph.Seed + int64(c)*7919))
			cl := newClient()
			defer cl.CloseIdleConnections()
			round := 0
			for time.Now().Before(deadline) {
				select {
				case <-stop:
					return
				default:
				}
				var key string
				if rng.Intn(100) < ph.HotPct {
					key = keys[rng.Intn(2)%len(keys)]
				} else {
					key = keys[rng.Intn(len(keys))]
				}
				ae := c20AEs[rng.Intn(len(c20AEs))]
				h := http.Header{}
				if ae != "" {
					h.Set("Accept-Encoding", ae)
				}
				cond := rng.Intn(100) < ph.CondPct
				if cond {
					h.Set("If-None-Match", `"`+key+`"`)
				}
				method := "GET"
				switch rng.Intn(20) {
				case 0:
					method = "POST"
				case 1, 2, 3:
					method = "HEAD" // entries of its own; must never become what GET clients are served
				}
				uri := fmt.Sprintf("/c20/%s/%s", phaseTag, key)
				if rng.Intn(2) == 0 {
					uri = fmt.Sprintf("/c20r/%s/%s", phaseTag, key)
				}
				r := do(cl, reqSpec{Method: method, Addr: addr, Host: "c20.test", URI: uri, Header: h})
				atomic.AddInt64(&st.reqs, 1)
				if r.Err != "" {
					atomic.AddInt64(&st.errors, 1)
					viol("transport", "%s %s: %s", method, uri, r.Err)
					continue
				}
				switch r.Header.Get("X-Status") {
				case "hit":
					atomic.AddInt64(&st.hits, 1)
				case "fetching":
					atomic.AddInt64(&st.fetching, 1)
				case "hitForPass", "passed":
					atomic.AddInt64(&st.passes, 1)
				}
				if r.Code == 304 {
					atomic.AddInt64(&st.notModified, 1)
					if !cond {
						viol("unexpected-304", "%s without validators got 304 (X-Status %q)", uri, r.Header.Get("X-Status"))
					}
					continue
				}
				if r.Code != 200 {
					viol("status", "%s %s (AE %q, cond %v): status %d X-Status %q body %q", method, uri, ae, cond, r.Code, r.Header.Get("X-Status"), trunc(r.Raw, 120))
					continue
				}
				if k := r.Header.Get("X-Key"); k != key {
					viol("foreign-response", "%s received headers of key %q", uri, k)
				}
				ce := r.Header.Get("Content-Encoding")
				if ce != "" && !aeTokens(ae)[ce] {
					viol("unacceptable-encoding", "%s: Accept-Encoding %q, Content-Encoding %q", uri, ae, ce)
				}
				if method == "HEAD" {
					if len(r.Raw) != 0 {
						viol("body", "HEAD %s: %d body bytes", uri, len(r.Raw))
					}
					continue
				}
				if r.DecodeErr != "" {
					viol("decode", "%s (CE %q): %s", uri, ce, r.DecodeErr)
					continue
				}
				if !bytes.Equal(r.Body, c20Body(key, ph.BigBodies)) {
					viol("body", "%s (AE %q, CE %q, X-Status %q): body of %d bytes is not what the upstream produces for this key (%d bytes): %q", uri, ae, ce, r.Header.Get("X-Status"), len(r.Body), len(c20Body(key, ph.BigBodies)), trunc(r.Body, 80))
				}
				round++
				if ph.BurstMode && round%8 == 0 {
					// silence past the 1 s lifetime, then everybody comes back at once
					time.Sleep(1150 * time.Millisecond)
				}
			}
		}(c)
	}
	if ph.PurgeEvery > 0 {
		wg.Add(1)
		go func() {
			defer wg.Done()
			rng := rand.New(rand.NewSource(ph.Seed ^ 0x5eed))
			for time.Now().Before(deadline) {
				key := keys[rng.Intn(len(keys))]
				name := ""
				if rng.Intn(2) == 0 {
					name = "c20cache"
				}
				cache.RemoveHTTPCache(name, []byte(fmt.Sprintf("GET c20.test /c20/%s/%s", phaseTag, key)))
				atomic.AddInt64(&st.purges, 1)
				time.Sleep(time.Duration(ph.PurgeEvery) * time.Millisecond)
			}
		}()
	}
	if ph.ReloadEvery > 0 {
		wg.Add(1)
		go func() {
			defer wg.Done()
			v := 1
			for time.Now().Before(deadline) {
				if err := applyConfig(c20Config(v, seq)); err != nil {
					viol("reload", "reload failed: %v", err)
				}
				v++
				atomic.AddInt64(&st.reloads, 1)
				time.Sleep(time.Duration(ph.ReloadEvery) * time.Millisecond)
			}
		}()
	}
	wg.Wait()
	close(stop)
	// race reports written so far
	races := readRaceReports()
	for sig, n := range races {
		if strings.HasPrefix(sig, "harness-only") {
			out.Class("harness_only_race_report")
			continue
		}
		viol("data-race", "%d race-detector report(s), first pike/elton frame: %s", n, sig)
	}
	out.NonTrivial = st.hits > 0 && st.fetching > 0 && st.passes > 0 && (st.purges > 0 || ph.PurgeEvery == 0) && (st.reloads > 0 || ph.ReloadEvery == 0) && st.purges+st.reloads > 0
	out.Evals = int(st.reqs)
	if st.purges > 0 {
		out.Class("with_purges")
	}
	if st.reloads > 0 {
		out.Class("with_reloads")
	}
	if ph.BurstMode {
		out.Class("burst_silence_burst")
	}
	out.Sig = fmt.Sprintf("%+v", ph)
	return out
}

var raceSeen = map[string]bool{}
var frameRe = regexp.MustCompile(`(github\.com/vicanso/(?:pike|elton)\S*?)\(\)`)

// readRaceReports parses the race detector's log files (GORACE log_path) and
// returns new reports keyed by their first pike/elton frame
func readRaceReports() map[string]int {
	res := map[string]int{}
	base := os.Getenv("VERIF_RACE_LOG")
	if base == "" {
		return res
	}
	files, _ := filepath.Glob(base + ".*")
	for _, f := range files {
		data, err := os.ReadFile(f)
		if err != nil {
			continue
		}
		for _, block := range strings.Split(string(data), "==================") {
			if !strings.Contains(block, "DATA RACE") {
				continue
			}
			id := fmt.Sprintf("%x", fnv32(block))
			if raceSeen[id] {
				continue
			}
			raceSeen[id] = true
			m := frameRe.FindStringSubmatch(block)
			sig := "harness-only stack"
			if m != nil {
				sig = m[1]
			}
			res[sig]++
		}
	}
	return res
}

func fnv32(s string) uint32 {
	h := fnv.New32a()
	_, _ = h.Write([]byte(s))
	return h.Sum32()
}

func TestC20(t *testing.T) {
	vstat.Run(t, "C20", "netw", genC20, execC20)
}
