//go:build verif && go1.25

package sim

// Scenario generators (rapid) and the per-property tests of engine S.

import (
	"fmt"
	"os"
	"runtime"
	"strings"
	"testing"

	"pgregory.net/rapid"

	"verif/harness/internal/vstat"
)

type profile struct {
	prop          string
	minKeys       int
	maxKeys       int
	methods       []string
	twoServers    int // percent of cases with requests on both servers
	stores        []string
	cacheSizes    []int
	hfps          []int
	proxyTimeouts []int
	lifetimes     []int
	outcomes      []string // drawn uniformly: cacheable | uncacheable | transport_error | body_abort | status5xx
	parkPct       int
	w             [6]int // weights: req complete advance release purge fault
	minOps        int
	maxOps        int
	macros        []string
	macroPct      int
	bodyLens      []int
	faultCalls    []string // store calls that may be given a fault (default: get, set, delete)
	aes           []string
	adversarial   bool // C06 key sets
	ageChoices    bool
	upstreamEnc   bool // upstream answers may carry Content-Encoding gzip (valid or broken streams)
	reloadW       int  // weight of no-op configuration reloads
	cancelW       int  // weight of "a waiting client goes away"
	longKeys      bool // adversarial keys include URIs longer than 256 bytes differing only in the middle
	shardKeys     bool // address keys by LRU shard (small caches: makes evictions replayable)
	shards        int  // how many shards the keys are spread over (0 => 4)
	varLen        bool // URIs of many lengths
	twins         bool // every key gets a twin of the other method (GET/HEAD) on the same host and URI
}

// hosts that differ in case, a trailing dot, a port, or a trailing run of digits
var hostsPool = []string{"a.test", "b.test", "A.test", "a.test.", "ab.test", "a.test:80", "a.test:8080", "a.test:8000", "a.test:8", "node1", "node10", "node100", "10.0.0.8", "10.0.0.80"}

func genKeys(t *rapid.T, p *profile) []Key {
	n := rapid.IntRange(p.minKeys, p.maxKeys).Draw(t, "nKeys")
	keys := make([]Key, 0, n)
	if p.adversarial {
		keys = genAdversarialKeys(t, n)
		// forcing a key into a shard appends a parameter of its own to the URI; half of the
		// cases keep the URIs as drawn, so that keys really differ in the host or the method
		// only (which keys share a shard then depends on the process's hash seed)
		if rapid.Bool().Draw(t, "forceShards") {
			for i := range keys {
				sh := rapid.IntRange(0, 3).Draw(t, "shard")
				keys[i].Shard = &sh
			}
		}
		return keys
	}
	for i := 0; i < n; i++ {
		m := rapid.SampledFrom(p.methods).Draw(t, "method")
		k := Key{Method: m, Host: "a.test", URI: fmt.Sprintf("/k%d", i)}
		if p.varLen {
			k.URI += strings.Repeat("x", rapid.IntRange(0, 40).Draw(t, "pad"))
		}
		if p.shardKeys {
			sh := rapid.IntRange(0, max(p.shards, 4)-1).Draw(t, "shard")
			k.Shard = &sh
		}
		keys = append(keys, k)
		if p.twins {
			tw := k
			tw.Method = map[string]string{"GET": "HEAD", "HEAD": "GET"}[k.Method]
			if tw.Method != "" {
				keys = append(keys, tw)
			}
		}
	}
	return keys
}

// near-identical key sets: one-byte differences, trailing slash, case, query
// order, same URI on several hosts, GET+HEAD twins, and keys whose
// method/host/URI split differently but look alike when concatenated
func genAdversarialKeys(t *rapid.T, n int) []Key {
	base := rapid.SampledFrom([]string{"/p", "/p/q", "/item", "/x"}).Draw(t, "base")
	long := func(mid string) string {
		return base + "?q=" + strings.Repeat("search-term-", 16) + "&page=" + mid + "&sort=" + strings.Repeat("relevance-", 12)
	}
	variants := []string{
		base, base + "/", base + "?a=1", base + "?a=2", base + "?a=1&b=2", base + "?b=2&a=1", base + "?", base + "?a=1&",
		base + "x", base + "X", base[:len(base)-1], "/" + base, base + "%20", base + "?a=1#f", base + "//",
		base + "/.", base + "?a=%31", "/b.test" + base, base + "?a=1&a=1",
		// the same path in other percent-encodings: different request-URIs, different keys, and the upstream must see each as sent
		base + "%2Fz", base + "/z", base + "%2fz", base + "/%7Ez", base + "/~z", base + "/%41", base + "/A",
		long("1"), long("2"), long("3"), long("7"),
	}
	var keys []Key
	seen := map[string]bool{}
	for len(keys) < n {
		k := Key{
			Method: rapid.SampledFrom([]string{"GET", "GET", "GET", "HEAD"}).Draw(t, "m"),
			Host:   rapid.SampledFrom(hostsPool).Draw(t, "h"),
			URI:    rapid.SampledFrom(variants).Draw(t, "u"),
		}
		if rapid.IntRange(0, 9).Draw(t, "twin") == 0 && len(keys) > 0 {
			// twin of an existing key differing in exactly one component
			o := keys[rapid.IntRange(0, len(keys)-1).Draw(t, "of")]
			k = o
			switch rapid.IntRange(0, 2).Draw(t, "comp") {
			case 0:
				if o.Method == "GET" {
					k.Method = "HEAD"
				} else {
					k.Method = "GET"
				}
			case 1:
				k.Host = rapid.SampledFrom(hostsPool).Draw(t, "h2")
			default:
				k.URI = rapid.SampledFrom(variants).Draw(t, "u2")
			}
		}
		id := k.Method + " " + k.Host + " " + k.URI
		if seen[id] {
			// fall back to a numbered key so that the loop terminates
			k.URI = fmt.Sprintf("%s?n=%d", base, len(keys))
			id = k.Method + " " + k.Host + " " + k.URI
			if seen[id] {
				continue
			}
		}
		seen[id] = true
		keys = append(keys, k)
	}
	return keys
}

type genState struct {
	t     *rapid.T
	p     *profile
	sc    *Scenario
	lastT int
	pend  int // rough estimate of pending upstream requests
	park  int
}

func (g *genState) outcome() *Outcome {
	kind := rapid.SampledFrom(g.p.outcomes).Draw(g.t, "outcome")
	o := &Outcome{Kind: kind}
	if len(g.p.bodyLens) > 0 {
		o.BodyLen = rapid.SampledFrom(g.p.bodyLens).Draw(g.t, "bodyLen")
	}
	switch kind {
	case "cacheable":
		o.T = rapid.SampledFrom(g.p.lifetimes).Draw(g.t, "T")
		g.lastT = o.T
		if g.p.ageChoices {
			switch rapid.IntRange(0, 5).Draw(g.t, "ageKind") {
			case 0:
				a := 0
				o.Age = &a
			case 1:
				a := rapid.IntRange(0, o.T+2).Draw(g.t, "age")
				o.Age = &a
				if o.T-a > 0 {
					g.lastT = o.T - a
				}
			}
		}
		o.SMaxAge = rapid.IntRange(0, 4).Draw(g.t, "smaxage") == 0
		o.ETag = rapid.SampledFrom([]string{"", "", "same", "same", "ver"}).Draw(g.t, "etag")
		if g.p.upstreamEnc {
			o.Enc = rapid.SampledFrom([]string{"", "", "", "gzip", "gzip", "gzip-broken"}).Draw(g.t, "enc")
			if o.Enc != "" && rapid.Bool().Draw(g.t, "bigEnc") {
				o.BodyLen = 6000 // above the default 1 KiB threshold once compressed
			}
		}
		o.Status = rapid.SampledFrom([]int{0, 0, 0, 200, 201, 404, 301}).Draw(g.t, "status")
	case "uncacheable":
		o.Why = rapid.SampledFrom([]string{"no-cc", "no-store", "no-cache", "private", "set-cookie", "max-age=0"}).Draw(g.t, "why")
		o.Status = rapid.SampledFrom([]int{0, 0, 200, 404, 500, 503}).Draw(g.t, "status")
	case "status5xx":
		o.Kind = "uncacheable"
		o.Why = "no-cc"
		o.Status = rapid.SampledFrom([]int{500, 502, 503}).Draw(g.t, "status")
	case "body_abort":
		o.Why = rapid.SampledFrom([]string{"no-cc", "cacheable-headers"}).Draw(g.t, "why")
		o.BodyLen = 100
	}
	return o
}

func (g *genState) advanceMs() int {
	T := g.lastT
	if T == 0 {
		T = 2
	}
	D := g.sc.Cfg.HFP
	if D <= 0 {
		D = 300
	}
	cands := []int{0, 1, 250, 500, 999, 1000, 1001, 1500,
		T*1000 - 1000, T*1000 - 1, T * 1000, T*1000 + 1, T*1000 + 500, T*1000 + 999, (T+1)*1000 - 1, (T + 1) * 1000, (T+1)*1000 + 1, (T + 2) * 1000,
		D*1000 - 1000, D*1000 - 1, D * 1000, D*1000 + 500, (D+1)*1000 - 1, (D + 1) * 1000, (D+1)*1000 + 1,
	}
	if g.sc.Cfg.ProxyTimeoutMs > 0 {
		cands = append(cands, g.sc.Cfg.ProxyTimeoutMs-1, g.sc.Cfg.ProxyTimeoutMs, g.sc.Cfg.ProxyTimeoutMs+1)
	}
	ms := rapid.SampledFrom(cands).Draw(g.t, "advance")
	if ms < 0 {
		ms = 0
	}
	return ms
}

func (g *genState) req(key int, park int) {
	op := Op{K: "req", Key: key, Park: park}
	if g.sc.Cfg.TwoServers {
		op.Srv = rapid.IntRange(0, 1).Draw(g.t, "srv")
	}
	if len(g.p.aes) > 0 {
		op.AE = rapid.SampledFrom(g.p.aes).Draw(g.t, "ae")
	}
	g.sc.Ops = append(g.sc.Ops, op)
	g.pend++
	if park != 0 {
		g.park++
	}
}

func (g *genState) parkBits() int {
	if rapid.IntRange(0, 99).Draw(g.t, "parkP") < g.p.parkPct {
		return rapid.SampledFrom([]int{1, 2, 3, 1, 2, 3, 4, 4, 5, 6, 7}).Draw(g.t, "parkBits")
	}
	return 0
}

func (g *genState) key() int { return rapid.IntRange(0, len(g.sc.Keys)-1).Draw(g.t, "key") }

func (g *genState) add(op Op) { g.sc.Ops = append(g.sc.Ops, op) }

func (g *genState) macro(name string) {
	t := g.t
	k := g.key()
	switch name {
	case "burst": // N requests before the completion
		n := rapid.IntRange(2, 6).Draw(t, "n")
		for i := 0; i < n; i++ {
			pb := 0
			if i > 0 {
				pb = g.parkBits()
			}
			g.req(k, pb)
		}
		g.add(Op{K: "complete", Pick: 0, Out: g.outcome()})
	case "wokenExpiry": // expiry between a waiter's wake-up and its resumption
		T := rapid.SampledFrom([]int{1, 2, 3}).Draw(t, "T")
		g.req(k, 0)
		nw := rapid.IntRange(1, 3).Draw(t, "nw")
		for i := 0; i < nw; i++ {
			g.req(k, 2)
		}
		g.add(Op{K: "complete", Pick: -1, Out: &Outcome{Kind: "cacheable", T: T}})
		g.lastT = T
		g.add(Op{K: "advance", Ms: (T+1)*1000 + rapid.SampledFrom([]int{0, 1, 500, 3000}).Draw(t, "x")})
		g.req(k, 0) // refetch starts
		if rapid.Bool().Draw(t, "completeFirst") {
			g.add(Op{K: "complete", Pick: -1, Out: g.outcome()})
		}
		for i := 0; i < nw; i++ {
			g.add(Op{K: "release", Pick: 0})
		}
		g.add(Op{K: "complete", Pick: -1, Out: g.outcome()})
	case "enterExpiry": // the entry expires between a request's lookup of it and its Get
		T := rapid.SampledFrom([]int{1, 2, 3}).Draw(t, "T")
		g.req(k, 0)
		g.add(Op{K: "complete", Pick: -1, Out: &Outcome{Kind: "cacheable", T: T}})
		g.lastT = T
		g.add(Op{K: "advance", Ms: T*1000 - rapid.SampledFrom([]int{1, 500, 900}).Draw(t, "before")})
		np := rapid.IntRange(1, 2).Draw(t, "np")
		for i := 0; i < np; i++ {
			g.req(k, 4) // looked the entry up while it was fresh
		}
		g.add(Op{K: "advance", Ms: 1000 + rapid.SampledFrom([]int{1, 500, 1500}).Draw(t, "after")})
		g.req(k, 0) // finds it expired: the fetcher
		if rapid.Bool().Draw(t, "completeFirst") {
			g.add(Op{K: "complete", Pick: -1, Out: g.outcome()})
		}
		for i := 0; i < np; i++ {
			g.add(Op{K: "release", Pick: 0})
		}
		g.add(Op{K: "complete", Pick: -1, Out: g.outcome()})
	case "registeredPark": // waiter between registering and waiting when the fetch ends
		g.req(k, 0)
		nw := rapid.IntRange(1, 4).Draw(t, "nw")
		for i := 0; i < nw; i++ {
			g.req(k, rapid.SampledFrom([]int{1, 1, 3, 0}).Draw(t, "pb"))
		}
		g.add(Op{K: "complete", Pick: -1, Out: g.outcome()})
	case "epochs":
		n := rapid.IntRange(2, 4).Draw(t, "epochs")
		for i := 0; i < n; i++ {
			T := rapid.SampledFrom(g.p.lifetimes).Draw(t, "T")
			g.req(k, 0)
			if rapid.Bool().Draw(t, "waiter") {
				g.req(k, g.parkBits())
			}
			g.add(Op{K: "complete", Pick: -1, Out: &Outcome{Kind: "cacheable", T: T, ETag: rapid.SampledFrom([]string{"", "same", "ver"}).Draw(t, "etag")}})
			g.lastT = T
			g.add(Op{K: "advance", Ms: T*1000 + rapid.SampledFrom([]int{-1500, -1, 0, 1, 500, 999, 1000, 1001, 2500}).Draw(t, "off")})
			g.req(k, 0)
			if rapid.Bool().Draw(t, "again") {
				g.add(Op{K: "advance", Ms: rapid.SampledFrom([]int{1, 999, 1000, 1001}).Draw(t, "more")})
				g.req(k, 0)
			}
		}
	case "hfpBurst": // passes during the period, probe after it
		D := g.sc.Cfg.HFP
		if D <= 0 {
			D = 300
		}
		g.req(k, 0)
		if rapid.Bool().Draw(t, "waiter") {
			g.req(k, g.parkBits())
		}
		out := g.outcome()
		if out.Kind == "cacheable" {
			out = &Outcome{Kind: "uncacheable", Why: "no-store"}
		}
		g.add(Op{K: "complete", Pick: -1, Out: out})
		n := rapid.IntRange(2, 5).Draw(t, "n")
		if rapid.Bool().Draw(t, "mid") {
			g.add(Op{K: "advance", Ms: rapid.SampledFrom([]int{1, 500, D*1000 - 1001, D*1000 - 1}).Draw(t, "into")})
		}
		for i := 0; i < n; i++ {
			g.req(k, 0)
		}
		for i := 0; i < n; i++ {
			if rapid.IntRange(0, 3).Draw(t, "c") > 0 {
				g.add(Op{K: "complete", Pick: rapid.IntRange(0, 5).Draw(t, "pick"), Out: g.outcome()})
			}
		}
		g.add(Op{K: "advance", Ms: D*1000 + rapid.SampledFrom([]int{-1000, -1, 0, 500, 999, 1000, 1001, 2000}).Draw(t, "off")})
		m := rapid.IntRange(1, 4).Draw(t, "m")
		for i := 0; i < m; i++ {
			g.req(k, 0)
		}
		g.add(Op{K: "complete", Pick: 0, Out: g.outcome()})
		g.req(k, 0)
	case "purgeRace":
		g.req(k, 0)
		nw := rapid.IntRange(0, 4).Draw(t, "nw")
		for i := 0; i < nw; i++ {
			g.req(k, g.parkBits())
		}
		g.add(Op{K: "purge", Key: k, Cache: rapid.SampledFrom([]string{"", "c1", "c1", "c2", "nope"}).Draw(t, "cache")})
		if rapid.Bool().Draw(t, "reqAfter") {
			g.req(k, 0)
		}
		g.add(Op{K: "complete", Pick: 0, Out: g.outcome()})
		g.req(k, 0)
	case "purgeFresh":
		g.req(k, 0)
		g.add(Op{K: "complete", Pick: -1, Out: &Outcome{Kind: "cacheable", T: rapid.SampledFrom(g.p.lifetimes).Draw(t, "T")}})
		g.req(k, 0)
		g.add(Op{K: "purge", Key: k, Cache: rapid.SampledFrom([]string{"", "c1", "c1", "c2", "nope"}).Draw(t, "cache")})
		g.req(k, 0)
		if len(g.sc.Keys) > 1 {
			g.req((k+1)%len(g.sc.Keys), 0)
		}
	case "timeout": // hang until the proxy timeout fires
		g.req(k, 0)
		nw := rapid.IntRange(0, 3).Draw(t, "nw")
		for i := 0; i < nw; i++ {
			g.req(k, g.parkBits())
		}
		to := g.sc.Cfg.ProxyTimeoutMs
		if to <= 0 {
			to = 1000
		}
		g.add(Op{K: "advance", Ms: to + rapid.SampledFrom([]int{0, 1, 500}).Draw(t, "x")})
		g.req(k, 0)
	case "storeFaultFirst": // a read fault on the very first lookup of a key
		g.add(Op{K: "fault", Call: "get", Fault: g.getFault()})
		g.req(k, 0)
		if rapid.Bool().Draw(t, "w") {
			g.req(k, g.parkBits())
		}
		g.add(Op{K: "complete", Pick: -1, Out: g.outcome()})
		g.req(k, 0)
	case "storeFaultAfterPurge":
		g.req(k, 0)
		g.add(Op{K: "complete", Pick: -1, Out: &Outcome{Kind: "cacheable", T: rapid.SampledFrom(g.p.lifetimes).Draw(t, "T")}})
		if rapid.Bool().Draw(t, "delFault") {
			g.add(Op{K: "fault", Call: "delete", Fault: "error"})
		}
		g.add(Op{K: "purge", Key: k, Cache: rapid.SampledFrom([]string{"", "c1"}).Draw(t, "cache")})
		g.add(Op{K: "fault", Call: "get", Fault: g.getFault()})
		g.req(k, 0)
		g.add(Op{K: "complete", Pick: -1, Out: g.outcome()})
		g.req(k, 0)
	case "hfpEvictReload": // a hit-for-pass marker leaves memory inside its period, then the key is asked again (twice at once)
		D := g.sc.Cfg.HFP
		if D <= 0 {
			D = 300
		}
		g.req(k, 0)
		g.add(Op{K: "complete", Pick: -1, Out: &Outcome{Kind: "uncacheable", Why: rapid.SampledFrom([]string{"no-store", "no-cache", "private", "none"}).Draw(t, "why")}})
		n := rapid.IntRange(3, len(g.sc.Keys)).Draw(t, "others")
		for i := 1; i <= n; i++ {
			g.req((k+i)%len(g.sc.Keys), 0)
			g.add(Op{K: "complete", Pick: -1, Out: g.outcome()})
		}
		g.add(Op{K: "advance", Ms: rapid.SampledFrom([]int{1, 500, 1500, D*1000 - 2500}).Draw(t, "into")})
		g.req(k, 0)
		g.req(k, 0)
		g.add(Op{K: "complete", Pick: -1, Out: g.outcome()})
		g.add(Op{K: "complete", Pick: -1, Out: g.outcome()})
	case "evictReload": // touch many keys so that k is evicted, then come back
		T := rapid.SampledFrom([]int{2, 5, 60}).Draw(t, "T")
		g.req(k, 0)
		g.add(Op{K: "complete", Pick: -1, Out: &Outcome{Kind: "cacheable", T: T}})
		g.lastT = T
		n := rapid.IntRange(3, len(g.sc.Keys)).Draw(t, "others")
		for i := 1; i <= n; i++ {
			g.req((k+i)%len(g.sc.Keys), 0)
			if rapid.Bool().Draw(t, "c") {
				g.add(Op{K: "complete", Pick: -1, Out: g.outcome()})
			}
		}
		g.add(Op{K: "advance", Ms: g.advanceMs()})
		g.req(k, 0)
		g.add(Op{K: "advance", Ms: g.advanceMs()})
		g.req(k, 0)
	}
}

func (g *genState) getFault() string {
	switch rapid.IntRange(0, 6).Draw(g.t, "faultKind") {
	case 6:
		return fmt.Sprintf("badfilter:%d", rapid.IntRange(0, 5).Draw(g.t, "dmg"))
	case 0:
		return "notfound"
	case 1:
		return "error"
	case 2, 3:
		return fmt.Sprintf("trunc:%d", rapid.IntRange(0, 400).Draw(g.t, "cut"))
	case 4:
		return fmt.Sprintf("status:%d", rapid.SampledFrom([]int{0, 1, 4, 99}).Draw(g.t, "st"))
	default:
		return fmt.Sprintf("garbage:%d", rapid.IntRange(0, 1000).Draw(g.t, "seed"))
	}
}

func genScenario(p *profile) func(t *rapid.T) Scenario {
	return func(t *rapid.T) Scenario {
		sc := Scenario{}
		sc.Cfg.CacheSize = rapid.SampledFrom(p.cacheSizes).Draw(t, "cacheSize")
		sc.Cfg.HFP = rapid.SampledFrom(p.hfps).Draw(t, "hfp")
		sc.Cfg.ProxyTimeoutMs = rapid.SampledFrom(p.proxyTimeouts).Draw(t, "proxyTimeout")
		sc.Cfg.Store = rapid.SampledFrom(p.stores).Draw(t, "store")
		sc.Cfg.TwoServers = rapid.IntRange(0, 99).Draw(t, "two") < p.twoServers
		if sc.Cfg.TwoServers && rapid.IntRange(0, 3).Draw(t, "shared") == 0 {
			sc.Cfg.SharedCache = true
		}
		if sc.Cfg.TwoServers && !sc.Cfg.SharedCache && sc.Cfg.HFP > 0 && rapid.Bool().Draw(t, "hfp2Unset") {
			sc.Cfg.HFP2Unset = true
		}
		sc.Keys = genKeys(t, p)
		g := &genState{t: t, p: p, sc: &sc, lastT: 0}
		n := rapid.IntRange(p.minOps, p.maxOps).Draw(t, "nOps")
		total := 0
		for _, x := range p.w {
			total += x
		}
		for len(sc.Ops) < n {
			if len(p.macros) > 0 && rapid.IntRange(0, 99).Draw(t, "macroP") < p.macroPct {
				g.macro(rapid.SampledFrom(p.macros).Draw(t, "macro"))
				continue
			}
			if p.reloadW > 0 && rapid.IntRange(0, 99).Draw(t, "reloadP") < p.reloadW {
				g.add(Op{K: "reload"})
				continue
			}
			if p.cancelW > 0 && rapid.IntRange(0, 99).Draw(t, "cancelP") < p.cancelW {
				g.add(Op{K: "cancel", Pick: rapid.IntRange(0, 7).Draw(t, "pick"), Srv: rapid.IntRange(0, 1).Draw(t, "ofFetcher")})
				continue
			}
			x := rapid.IntRange(0, total-1).Draw(t, "op")
			kind := 0
			for kind = 0; kind < len(p.w); kind++ {
				if x < p.w[kind] {
					break
				}
				x -= p.w[kind]
			}
			switch kind {
			case 0:
				g.req(g.key(), g.parkBits())
			case 1:
				g.add(Op{K: "complete", Pick: rapid.IntRange(0, 7).Draw(t, "pick"), Out: g.outcome()})
			case 2:
				g.add(Op{K: "advance", Ms: g.advanceMs()})
			case 3:
				g.add(Op{K: "release", Pick: rapid.IntRange(0, 7).Draw(t, "pick")})
			case 4:
				g.add(Op{K: "purge", Key: g.key(), Cache: rapid.SampledFrom([]string{"", "c1", "c1", "c2", "nope"}).Draw(t, "cache")})
			case 5:
				calls := []string{"get", "set", "set", "delete"}
				if len(p.faultCalls) > 0 {
					calls = p.faultCalls
				}
				call := rapid.SampledFrom(calls).Draw(t, "call")
				f := "error"
				if call == "get" {
					f = g.getFault()
				}
				g.add(Op{K: "fault", Call: call, Fault: f})
			}
		}
		return sc
	}
}

// ---------------------------------------------------------------------

var curT *testing.T

func execSim(t *testing.T, prop string, nontrivial func(*modelStats, *trace) bool, classes func(*modelStats, *trace, *vstat.Outcome)) func(Scenario) *vstat.Outcome {
	return func(sc Scenario) *vstat.Outcome {
		out := &vstat.Outcome{}
		m := newModel(prop, out)
		tr := runScenario(t, sc, m)
		if tr.Deadlock != "" {
			out.Violate("C02", "deadlock", "the bubble ended with goroutines blocked forever: %s (unfinished requests %v)", tr.Deadlock, tr.Stuck)
		}
		out.NonTrivial = nontrivial(&m.stats, tr)
		classes(&m.stats, tr, out)
		if tr.Skipped > 0 {
			out.Class("has_skipped_ops")
		}
		return out
	}
}

func stdClasses(s *modelStats, tr *trace, out *vstat.Outcome) {
	add := func(c string, n int) {
		if n > 0 {
			out.Class(c)
		}
	}
	add("waiters", s.Waiters)
	add("hits", s.Hits)
	add("epochs>=2", btoi(s.Epochs >= 2))
	add("parked_registered_across_end", s.ParkedRegisteredAcrossEnd)
	add("parked_woken_across_expiry_or_purge", s.ParkedWokenAcrossExpiry)
	add("boundary_second", s.BoundaryCases)
	add("failed_or_uncacheable_fetch", s.FailedFetches)
	add("waiters_of_failed_fetch", s.WaitersOfFailed)
	add("proxy_timeout", s.Timeouts)
	add("hfp_probe", s.HFPProbes)
	add("purge", s.Purges)
	add("purge_during_fetch", s.PurgeDuringFetch)
	add("purge_of_fresh", s.PurgeOfFresh)
	add("request_after_purge", s.RequestAfterPurge)
	add("eviction", s.Evictions)
	add("reload_hit", s.ReloadHits)
	add("reload_refetch", s.ReloadRefetch)
	add("store_fault_applied", s.FaultsHit)
	add("expired_refetch", s.ExpiredRefetch)
	add("aborted", s.Aborted)
	add("overlap>=3", btoi(s.MaxOverlap >= 3))
	add("ambiguous_resolved", s.AmbiguousResolved)
	add("wild", s.WildGens)
	add("waiter_age_checked", s.WaiterAgeChecked)
	add("hfp_marker_reloaded_from_store", s.MarkerReloads)
	add("parked_between_lookup_and_get", s.ParkedAtEnter)
}

func btoi(b bool) int {
	if b {
		return 1
	}
	return 0
}

func installWedge(t *testing.T, prop string) {
	rec := vstat.For(prop, t.Name(), "sim")
	onWedge = func(sc Scenario) {
		out := &vstat.Outcome{}
		out.Violate("C02", "wedged", "the scenario did not become quiescent within %s of real time: a goroutine is blocked on a lock whose holder never proceeds", wedgeAfter)
		if prop != "C02" {
			// every property checked here presupposes that requests are answered
			out.Violate(prop, "wedged", "the scenario did not become quiescent within %s of real time (some request can never complete): a goroutine is blocked on a lock whose holder never proceeds", wedgeAfter)
		}
		rec.Record(sc, out)
		vstat.FlushAll()
		fmt.Println("WEDGED scenario recorded")
		if os.Getenv("VERIF_DEBUG") != "" {
			buf := make([]byte, 1<<20)
			n := runtime.Stack(buf, true)
			fmt.Println(string(buf[:n]))
		}
		os.Exit(3)
	}
}

var allOutcomes = []string{"cacheable", "cacheable", "cacheable", "uncacheable", "transport_error", "body_abort", "status5xx"}

func TestC01(t *testing.T) {
	installWedge(t, "C01")
	p := &profile{prop: "C01", minKeys: 1, maxKeys: 3, methods: []string{"GET", "GET", "GET", "HEAD"}, upstreamEnc: true, reloadW: 3, cancelW: 3,
		stores: []string{""}, cacheSizes: []int{1000, 1000, 100, 1001, 2000}, hfps: []int{0, 2}, proxyTimeouts: []int{0},
		lifetimes: []int{1, 2, 3, 5}, outcomes: []string{"cacheable", "cacheable", "cacheable", "cacheable", "uncacheable", "transport_error", "body_abort"},
		parkPct: 30, w: [6]int{40, 25, 15, 12, 2, 0}, minOps: 4, maxOps: 40,
		macros: []string{"burst", "wokenExpiry", "registeredPark", "epochs", "enterExpiry"}, macroPct: 14,
		bodyLens: []int{0, 0, 40, 3000}, aes: []string{"", "gzip", "br", "gzip, br"}}
	vstat.Run(t, "C01", "sim", genScenario(p), execSim(t, "C01", func(s *modelStats, tr *trace) bool {
		return s.Waiters >= 1 && (s.ParkedWokenAcrossExpiry > 0 || s.Epochs >= 2 || s.ParkedRegisteredAcrossEnd > 0)
	}, stdClasses))
}

func TestC02(t *testing.T) {
	installWedge(t, "C02")
	p := &profile{prop: "C02", minKeys: 1, maxKeys: 2, methods: []string{"GET", "GET", "HEAD"}, upstreamEnc: true, reloadW: 3, cancelW: 5, twins: true,
		stores: []string{"", "", "mem", "fault"}, cacheSizes: []int{1000, 1000, 100, 1001, 2000}, hfps: []int{0, 1, 2}, proxyTimeouts: []int{0, 1000, 3000, 10000, 500, 1500, 250},
		lifetimes: []int{1, 2, 5}, outcomes: allOutcomes,
		parkPct: 35, w: [6]int{40, 25, 12, 12, 5, 3}, minOps: 4, maxOps: 40, // store calls may fail (read, write, delete)
		macros: []string{"burst", "registeredPark", "timeout", "purgeRace", "wokenExpiry"}, macroPct: 12,
		bodyLens: []int{0, 40}, aes: []string{"", "gzip"}}
	vstat.Run(t, "C02", "sim", genScenario(p), execSim(t, "C02", func(s *modelStats, tr *trace) bool {
		return s.WaitersOfFailed >= 1 || s.ParkedRegisteredAcrossEnd > 0
	}, stdClasses))
}

// TestC03Histories: the label / delivery clauses of C03 over histories (expiry,
// refetches that turn uncacheable, waiters, passes), judged by the general automaton
func TestC03Histories(t *testing.T) {
	installWedge(t, "C03")
	p := &profile{prop: "C03", minKeys: 1, maxKeys: 2, methods: []string{"GET", "GET", "HEAD", "POST", "DELETE"},
		stores: []string{"", "", "mem"}, cacheSizes: []int{1000, 1000, 100, 1001, 2000}, hfps: []int{0, 2}, proxyTimeouts: []int{0},
		lifetimes: []int{1, 2, 5}, outcomes: []string{"cacheable", "cacheable", "uncacheable", "uncacheable", "status5xx"},
		parkPct: 15, w: [6]int{45, 28, 17, 8, 2, 0}, minOps: 6, maxOps: 40,
		macros: []string{"burst", "epochs", "hfpBurst"}, macroPct: 15, reloadW: 2,
		// bodies above the compress threshold too: what was compressed for one response must not show up in another
		bodyLens: []int{0, 40, 3000, 2900}, aes: []string{"", "gzip", "gzip", "br"}}
	vstat.Run(t, "C03", "sim", genScenario(p), execSim(t, "C03", func(s *modelStats, tr *trace) bool {
		return s.Epochs >= 1 && s.FailedFetches >= 1 && s.Waiters >= 1
	}, stdClasses))
}

func TestC04(t *testing.T) {
	installWedge(t, "C04")
	p := &profile{prop: "C04", minKeys: 1, maxKeys: 1, methods: []string{"GET", "GET", "GET", "HEAD"}, reloadW: 3, twins: true,
		stores: []string{"", "", "mem", "lazy"}, cacheSizes: []int{1000, 1000, 100, 1001, 2000}, hfps: []int{0, 1}, proxyTimeouts: []int{0},
		lifetimes: []int{1, 2, 3, 4, 5, 6, 7, 8, 9, 10, 60, 3600, 31536000}, outcomes: []string{"cacheable", "cacheable", "cacheable", "cacheable", "cacheable", "uncacheable"},
		parkPct: 5, w: [6]int{40, 25, 30, 3, 0, 0}, minOps: 6, maxOps: 50,
		macros: []string{"epochs"}, macroPct: 15, ageChoices: true,
		bodyLens: []int{0, 40}, aes: []string{"", "gzip"}}
	vstat.Run(t, "C04", "sim", genScenario(p), execSim(t, "C04", func(s *modelStats, tr *trace) bool {
		return (s.BoundaryCases > 0 || s.ExpiredRefetch > 0) && s.Hits > 0
	}, stdClasses))
}

func TestC07(t *testing.T) {
	installWedge(t, "C07")
	p := &profile{prop: "C07", minKeys: 1, maxKeys: 2, methods: []string{"GET", "GET", "GET", "HEAD"}, reloadW: 6, twoServers: 40,
		stores: []string{"", "", "lazy"}, cacheSizes: []int{1000, 1000, 100, 1001, 2000}, hfps: []int{0, -5, 1, 2, 5, 60, 300}, proxyTimeouts: []int{0},
		lifetimes: []int{1, 2, 5}, outcomes: []string{"cacheable", "uncacheable", "uncacheable", "transport_error", "status5xx", "body_abort"},
		parkPct: 10, w: [6]int{45, 25, 22, 5, 0, 0}, minOps: 6, maxOps: 45,
		macros: []string{"hfpBurst"}, macroPct: 15,
		bodyLens: []int{0, 40}, aes: []string{"", "gzip"}}
	vstat.Run(t, "C07", "sim", genScenario(p), execSim(t, "C07", func(s *modelStats, tr *trace) bool {
		return s.Passes >= 2 && s.HFPProbes >= 1
	}, stdClasses))
}

// TestC07Store: hit-for-pass markers that leave memory (LRU smaller than the working set)
// inside their period while a reliable store holds them: the key must still be passed, not
// probed, and concurrent requests must not queue
func TestC07Store(t *testing.T) {
	installWedge(t, "C07")
	p := &profile{prop: "C07", minKeys: 10, maxKeys: 30, methods: []string{"GET", "GET", "GET", "HEAD"}, shardKeys: true,
		stores: []string{"mem"}, cacheSizes: []int{8, 8, 16}, hfps: []int{5, 60, 300, 0}, proxyTimeouts: []int{0},
		lifetimes: []int{2, 5, 60}, outcomes: []string{"cacheable", "uncacheable", "uncacheable", "uncacheable", "status5xx", "body_abort"},
		parkPct: 5, w: [6]int{50, 32, 12, 3, 3, 0}, minOps: 12, maxOps: 100,
		macros: []string{"hfpEvictReload", "hfpEvictReload", "hfpBurst"}, macroPct: 12,
		bodyLens: []int{0, 40}, aes: []string{"", "gzip"}}
	vstat.Run(t, "C07", "sim", genScenario(p), execSim(t, "C07", func(s *modelStats, tr *trace) bool {
		return s.MarkerReloads >= 1
	}, stdClasses))
}

// TestC04Store: lifetimes and Age across reloads from a store -- an LRU smaller than the
// working set drops entries that the store gives back: the lifetime and the Age keep
// counting from the original fetch
func TestC04Store(t *testing.T) {
	installWedge(t, "C04")
	p := &profile{prop: "C04", minKeys: 10, maxKeys: 30, methods: []string{"GET", "GET", "GET", "HEAD"}, shardKeys: true,
		stores: []string{"mem", "mem", "lazy"}, cacheSizes: []int{8, 8, 16}, hfps: []int{0, 2}, proxyTimeouts: []int{0},
		lifetimes: []int{2, 3, 5, 8, 60}, outcomes: []string{"cacheable", "cacheable", "cacheable", "cacheable", "uncacheable"},
		parkPct: 5, w: [6]int{50, 32, 14, 2, 2, 0}, minOps: 12, maxOps: 110,
		macros: []string{"evictReload", "evictReload", "epochs"}, macroPct: 14,
		bodyLens: []int{0, 40}, aes: []string{"", "gzip"}}
	vstat.Run(t, "C04", "sim", genScenario(p), execSim(t, "C04", func(s *modelStats, tr *trace) bool {
		return s.ReloadHits >= 1
	}, stdClasses))
}

func TestC18(t *testing.T) {
	installWedge(t, "C18")
	p := &profile{prop: "C18", faultCalls: []string{"delete"}, minKeys: 2, maxKeys: 3, methods: []string{"GET", "GET", "GET", "HEAD"}, reloadW: 4, twins: true,
		twoServers: 70, stores: []string{"", "mem", "mem", "lazy", "fault"}, cacheSizes: []int{1000, 1000, 100, 1001, 2000}, hfps: []int{0, 2}, proxyTimeouts: []int{0},
		lifetimes: []int{2, 5, 60}, outcomes: []string{"cacheable", "cacheable", "cacheable", "uncacheable", "transport_error"},
		parkPct: 20, w: [6]int{40, 25, 8, 10, 17, 4}, minOps: 6, maxOps: 45,
		macros: []string{"purgeRace", "purgeFresh"}, macroPct: 15,
		bodyLens: []int{0, 40}, aes: []string{"", "gzip"}}
	vstat.Run(t, "C18", "sim", genScenario(p), execSim(t, "C18", func(s *modelStats, tr *trace) bool {
		return (s.PurgeOfFresh > 0 && s.RequestAfterPurge > 0) || (s.PurgeDuringFetch > 0 && s.Waiters > 0)
	}, stdClasses))
}

func TestC10(t *testing.T) {
	installWedge(t, "C10")
	p := &profile{prop: "C10", minKeys: 1, maxKeys: 4, methods: []string{"GET", "GET", "GET", "HEAD"}, shardKeys: true,
		stores: []string{"fault"}, cacheSizes: []int{1000, 1000, 8}, hfps: []int{0, 2}, proxyTimeouts: []int{0},
		lifetimes: []int{1, 2, 5, 60}, outcomes: []string{"cacheable", "cacheable", "cacheable", "uncacheable", "transport_error"},
		parkPct: 20, w: [6]int{38, 24, 10, 8, 8, 12}, minOps: 6, maxOps: 45,
		macros: []string{"storeFaultFirst", "storeFaultAfterPurge", "burst"}, macroPct: 15,
		bodyLens: []int{0, 40}, aes: []string{"", "gzip"}}
	vstat.Run(t, "C10", "sim", genScenario(p), execSim(t, "C10", func(s *modelStats, tr *trace) bool {
		return s.FaultsHit >= 1 && (s.Waiters >= 1 || s.Reqs >= 3)
	}, stdClasses))
}

func TestC06(t *testing.T) {
	installWedge(t, "C06")
	p := &profile{prop: "C06", minKeys: 4, maxKeys: 40, adversarial: true, longKeys: true, reloadW: 2,
		twoServers: 20, stores: []string{"", "", "mem"}, cacheSizes: []int{8, 8, 16, 24}, hfps: []int{0, 2}, proxyTimeouts: []int{0},
		lifetimes: []int{2, 60}, outcomes: []string{"cacheable", "cacheable", "cacheable", "uncacheable"},
		parkPct: 5, w: [6]int{50, 35, 5, 3, 7, 0}, minOps: 10, maxOps: 120,
		bodyLens: []int{0, 40, 3000, 2900}, aes: []string{"", "gzip", "gzip", "br"}}
	vstat.Run(t, "C06", "sim", genScenario(p), execSim(t, "C06", func(s *modelStats, tr *trace) bool {
		return s.Evictions >= 1 && s.Hits+s.Waiters >= 1
	}, stdClasses))
}

func TestC08Sim(t *testing.T) {
	installWedge(t, "C08")
	p := &profile{prop: "C08", minKeys: 10, maxKeys: 30, methods: []string{"GET", "GET", "GET", "HEAD"}, shardKeys: true, reloadW: 2,
		stores: []string{"mem", "mem", "lazy"}, cacheSizes: []int{8, 8, 16}, hfps: []int{0, 2, 5}, proxyTimeouts: []int{0},
		lifetimes: []int{2, 5, 60}, outcomes: []string{"cacheable", "cacheable", "cacheable", "uncacheable"},
		parkPct: 5, w: [6]int{50, 32, 12, 3, 3, 0}, minOps: 12, maxOps: 120,
		macros: []string{"evictReload"}, macroPct: 10, ageChoices: true,
		bodyLens: []int{0, 40, 3000}, aes: []string{"", "gzip", "br"}}
	vstat.Run(t, "C08", "sim", genScenario(p), execSim(t, "C08", func(s *modelStats, tr *trace) bool {
		return s.ReloadHits >= 1
	}, stdClasses))
}

// TestC11Sim: C11 through the server's cache middleware -- small caches with and without a
// store, key populations larger than the cache with URIs of many lengths, histories far
// longer than the size; the residency invariant is checked after every operation
func TestC11Sim(t *testing.T) {
	installWedge(t, "C11")
	p := &profile{prop: "C11", minKeys: 6, maxKeys: 40, methods: []string{"GET", "GET", "GET", "HEAD"}, shardKeys: true, shards: 8, varLen: true, reloadW: 2,
		twoServers: 20, stores: []string{"", "mem", "mem", "lazy"}, cacheSizes: []int{1, 2, 3, 5, 7, 8, 9, 15, 16, 17, 24}, hfps: []int{0, 2}, proxyTimeouts: []int{0},
		lifetimes: []int{2, 5, 60}, outcomes: []string{"cacheable", "cacheable", "cacheable", "uncacheable"},
		parkPct: 5, w: [6]int{55, 33, 5, 3, 4, 0}, minOps: 20, maxOps: 160,
		macros: []string{"evictReload"}, macroPct: 8,
		bodyLens: []int{0, 40}, aes: []string{"", "gzip"}}
	vstat.Run(t, "C11", "sim", genScenario(p), execSim(t, "C11", func(s *modelStats, tr *trace) bool {
		return s.Evictions >= 1 && tr.FullSeen
	}, func(s *modelStats, tr *trace, out *vstat.Outcome) {
		stdClasses(s, tr, out)
		out.Class(fmt.Sprintf("size_%d", tr.Scenario.Cfg.CacheSize))
		if tr.Scenario.Cfg.Store != "" {
			out.Class("with_store")
		}
	}))
}
