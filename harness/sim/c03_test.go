//go:build verif && go1.25

package sim

// C03 — only responses the origin marked shareable are ever stored; truthful label.
//
// Scenario: one key (any routed method), one generated upstream header set;
// request r1 is answered with it, then identical requests r2 (and r3) follow at
// the same instant.  Oracle: a reference predicate written from the statement.

import (
	"fmt"
	"math"
	"net/http"
	"strconv"
	"strings"
	"testing"

	"pgregory.net/rapid"

	"verif/harness/internal/vstat"
)

type c03Scenario struct {
	Method  string      `json:"method"`
	Status  int         `json:"status"`
	Headers [][2]string `json:"headers"`
	AdvMs   int         `json:"advMs,omitempty"`
}

type verdict int

const (
	vNo verdict = iota
	vYes
	vOpen // the statement leaves it open
)

// reference predicate: may this response be stored? (and is the input canonical)
func shareable(method string, headers [][2]string) (v verdict, L int64, canonical bool) {
	canonical = true
	if method != http.MethodGet && method != http.MethodHead {
		return vNo, 0, true
	}
	var cc []string
	var ages []string
	cookieLines, cookieNonEmpty := 0, 0
	for _, kv := range headers {
		switch http.CanonicalHeaderKey(kv[0]) {
		case "Set-Cookie":
			cookieLines++
			if kv[1] != "" {
				cookieNonEmpty++
			}
		case "Cache-Control":
			cc = append(cc, kv[1])
		case "Age":
			ages = append(ages, kv[1])
		}
	}
	if cookieNonEmpty > 0 {
		return vNo, 0, true
	}
	open := false
	if cookieLines > 0 {
		open = true // only empty Set-Cookie lines
	}
	type dir struct {
		name, val string
		hasVal    bool
		lower     bool
	}
	var dirs []dir
	for _, line := range cc {
		for _, part := range strings.Split(line, ",") {
			p := strings.TrimSpace(part)
			if p == "" {
				continue
			}
			d := dir{name: p}
			if i := strings.IndexByte(p, '='); i >= 0 {
				// the value is taken literally: "s-maxage= 5" is a malformed number, not 5
				d.name, d.val, d.hasVal = strings.TrimSpace(p[:i]), p[i+1:], true
			}
			if d.name != strings.ToLower(d.name) || p != part && strings.TrimSpace(part) != part {
				if d.name != strings.ToLower(d.name) {
					canonical = false
				}
			}
			if strings.Contains(p, " ") {
				canonical = false
			}
			d.lower = d.name == strings.ToLower(d.name)
			d.name = strings.ToLower(d.name)
			dirs = append(dirs, d)
		}
	}
	if len(dirs) == 0 {
		return vNo, 0, canonical
	}
	for _, d := range dirs {
		switch d.name {
		case "no-cache", "no-store", "private":
			return vNo, 0, canonical
		}
	}
	caseOpen := false
	parse := func(name string) (present bool, ok bool, n int64) {
		cnt := 0
		for _, d := range dirs {
			if d.name == name {
				cnt++
				present = true
				if !d.lower {
					// the statement asks for case-insensitive matching of the three
					// forbidding directives only; other spellings of the lifetime
					// directives are left open
					caseOpen = true
				}
				if !d.hasVal {
					continue
				}
				v, err := strconv.ParseInt(d.val, 10, 64)
				if err == nil && v >= 0 && !strings.HasPrefix(d.val, "+") {
					ok, n = true, v
				}
			}
		}
		if cnt > 1 {
			ok = false
		}
		return
	}
	var N int64
	sp, sok, sn := parse("s-maxage")
	mp, mok, mn := parse("max-age")
	if caseOpen {
		return vOpen, 0, false
	}
	switch {
	case sp && sok:
		N = sn
	case sp && !sok:
		open = true
		if mok {
			N = mn
		}
	case mp && mok:
		N = mn
	case mp && !mok:
		// malformed or overflowing max-age: no usable lifetime
		open = true
	default:
		return vNo, 0, canonical
	}
	if N > math.MaxInt32 {
		open = true // beyond any sensible range; arithmetic is the implementation's business
	}
	if N <= 0 && !open {
		return vNo, 0, canonical
	}
	age := int64(0)
	switch len(ages) {
	case 0:
	case 1:
		a, err := strconv.ParseInt(strings.TrimSpace(ages[0]), 10, 64)
		if allDigits(ages[0]) && (err != nil || a > math.MaxInt32) {
			// a delta-seconds value beyond what can be represented is a very large age
			// (RFC 7234 1.2.1), never a small one: with an ordinary lifetime nothing is left
			if !open && N <= math.MaxInt32 {
				return vNo, 0, canonical
			}
			open = true
		} else if err != nil || a < 0 || a > math.MaxInt32 || strings.TrimSpace(ages[0]) != ages[0] || strings.HasPrefix(ages[0], "+") {
			open = true
		} else {
			age = a
		}
	default:
		open = true
	}
	if open {
		if N <= 0 && (sp && sok || !sp && mok) {
			return vNo, 0, canonical // no reading gives a positive lifetime
		}
		return vOpen, 0, false
	}
	L = N - age
	if L <= 0 {
		return vNo, 0, canonical
	}
	return vYes, L, canonical
}

func allDigits(s string) bool {
	if s == "" {
		return false
	}
	for i := 0; i < len(s); i++ {
		if s[i] < '0' || s[i] > '9' {
			return false
		}
	}
	return true
}

var c03Methods = []string{"GET", "GET", "GET", "GET", "GET", "GET", "GET", "GET", "GET", "GET", "HEAD", "HEAD", "HEAD", "POST", "PUT", "PATCH", "DELETE", "OPTIONS", "TRACE"}

func genCase(t *rapid.T, s string, label string) string {
	switch rapid.IntRange(0, 5).Draw(t, label) {
	case 0:
		return strings.ToUpper(s)
	case 1:
		if len(s) > 0 {
			return strings.ToUpper(s[:1]) + s[1:]
		}
	case 2:
		b := []byte(s)
		for i := range b {
			if i%2 == 1 && b[i] >= 'a' && b[i] <= 'z' {
				b[i] -= 32
			}
		}
		return string(b)
	}
	return s
}

func genC03(t *rapid.T) c03Scenario {
	sc := c03Scenario{Method: rapid.SampledFrom(c03Methods).Draw(t, "method")}
	sc.Status = rapid.SampledFrom([]int{200, 200, 200, 201, 204, 301, 302, 404, 500, 503}).Draw(t, "status")
	nums := []string{"0", "1", "2", "60", "2147483647", "9223372036854775807", "100000000000000000000", "-1", "abc", "", "1.5", " 5"}
	var dirs []string
	canonicalOnly := rapid.IntRange(0, 2).Draw(t, "canonicalOnly") == 0
	add := func(name, val string) {
		n := name
		if !canonicalOnly {
			n = genCase(t, name, "case")
		}
		if val == "\x00" {
			dirs = append(dirs, n)
		} else {
			dirs = append(dirs, n+"="+val)
		}
	}
	num := func() string {
		if canonicalOnly {
			return rapid.SampledFrom([]string{"0", "1", "2", "60", "3600"}).Draw(t, "num")
		}
		return rapid.SampledFrom(nums).Draw(t, "num")
	}
	if rapid.IntRange(0, 9).Draw(t, "hasMaxAge") < 8 {
		add("max-age", num())
	}
	if rapid.IntRange(0, 9).Draw(t, "hasSMaxAge") < 3 {
		add("s-maxage", num())
	}
	for _, d := range []string{"no-cache", "no-store", "private"} {
		if rapid.IntRange(0, 11).Draw(t, "forbid") == 0 {
			if d == "no-cache" && rapid.Bool().Draw(t, "qualified") {
				add(d, `"set-cookie"`)
			} else {
				add(d, "\x00")
			}
		}
	}
	for _, d := range []string{"public", "must-revalidate", "immutable", "proxy-revalidate"} {
		if rapid.IntRange(0, 5).Draw(t, "ext") == 0 {
			add(d, "\x00")
		}
	}
	if rapid.IntRange(0, 7).Draw(t, "ext2") == 0 {
		dirs = append(dirs, rapid.SampledFrom([]string{`community="UCI"`, "stale-while-revalidate=30", "stale-if-error=60"}).Draw(t, "extTok"))
	}
	// order
	if len(dirs) > 1 {
		perm := rapid.Permutation(dirs).Draw(t, "order")
		dirs = perm
	}
	// split over 1..3 header lines, with separators
	if len(dirs) > 0 {
		lines := 1
		if !canonicalOnly {
			lines = rapid.IntRange(1, 3).Draw(t, "lines")
		}
		if lines > len(dirs) {
			lines = len(dirs)
		}
		per := (len(dirs) + lines - 1) / lines
		name := "Cache-Control"
		for i := 0; i < len(dirs); i += per {
			end := i + per
			if end > len(dirs) {
				end = len(dirs)
			}
			sep := ", "
			if !canonicalOnly {
				sep = rapid.SampledFrom([]string{",", ", ", " ,", " , "}).Draw(t, "sep")
			}
			sc.Headers = append(sc.Headers, [2]string{name, strings.Join(dirs[i:end], sep)})
		}
	}
	switch rapid.IntRange(0, 11).Draw(t, "cookie") {
	case 0:
		sc.Headers = append(sc.Headers, [2]string{"Set-Cookie", "sid=abc; Path=/"})
	case 1:
		sc.Headers = append(sc.Headers, [2]string{"Set-Cookie", "a=1"}, [2]string{"Set-Cookie", "b=2"})
	case 2:
		if !canonicalOnly {
			sc.Headers = append(sc.Headers, [2]string{"Set-Cookie", ""}, [2]string{"Set-Cookie", "late=1"})
		}
	case 3:
		if !canonicalOnly {
			sc.Headers = append(sc.Headers, [2]string{"Set-Cookie", ""})
		}
	}
	switch rapid.IntRange(0, 9).Draw(t, "age") {
	case 0:
		sc.Headers = append(sc.Headers, [2]string{"Age", "0"})
	case 1:
		sc.Headers = append(sc.Headers, [2]string{"Age", rapid.SampledFrom([]string{"1", "2", "59", "60", "61", "3600"}).Draw(t, "ageVal")})
	case 2:
		if !canonicalOnly {
			sc.Headers = append(sc.Headers, [2]string{"Age", rapid.SampledFrom([]string{"-5", "abc", "99999999999999999999", "", "1.5", "9223372036854775808", "4294967296", "18446744073709551616"}).Draw(t, "ageBad")})
		}
	}
	if rapid.IntRange(0, 3).Draw(t, "tier") == 0 {
		// the upstream is a cache itself (another pike, a CDN): it labels its answers
		sc.Headers = append(sc.Headers, [2]string{rapid.SampledFrom([]string{"X-Status", "X-Status", "X-Cache", "Via"}).Draw(t, "tierHeader"), rapid.SampledFrom([]string{"hit", "fetching", "hitForPass", "1.1 tier"}).Draw(t, "tierValue")})
	}
	if rapid.IntRange(0, 3).Draw(t, "expires") == 0 {
		sc.Headers = append(sc.Headers, [2]string{"Expires", "Thu, 01 Jan 2099 00:00:00 GMT"})
	}
	if rapid.IntRange(0, 3).Draw(t, "lastmod") == 0 {
		sc.Headers = append(sc.Headers, [2]string{"Last-Modified", "Thu, 01 Jan 1998 00:00:00 GMT"})
	}
	if rapid.IntRange(0, 4).Draw(t, "adv") == 0 {
		sc.AdvMs = rapid.SampledFrom([]int{1, 500, 999}).Draw(t, "advMs")
	}
	return sc
}

func execC03(t *testing.T) func(c03Scenario) *vstat.Outcome {
	return func(cs c03Scenario) *vstat.Outcome {
		out := &vstat.Outcome{}
		sc := Scenario{Keys: []Key{{Method: cs.Method, Host: "a.test", URI: "/c03"}}}
		raw := &Outcome{Kind: "raw", Status: cs.Status, Headers: cs.Headers}
		plain := &Outcome{Kind: "uncacheable", Why: "no-store"}
		sc.Ops = []Op{
			{K: "req"}, {K: "complete", Pick: 0, Out: raw},
		}
		if cs.AdvMs > 0 {
			sc.Ops = append(sc.Ops, Op{K: "advance", Ms: cs.AdvMs})
		}
		sc.Ops = append(sc.Ops, Op{K: "req"}, Op{K: "complete", Pick: 0, Out: plain}, Op{K: "req"}, Op{K: "complete", Pick: 0, Out: plain})
		m := newModel("C03", out)
		m.passive = true
		tr := runScenario(t, sc, m)
		if tr.Deadlock != "" {
			out.Violate("C02", "deadlock", "%s", tr.Deadlock)
			return out
		}
		v, L, canonical := shareable(cs.Method, cs.Headers)
		if len(tr.Clients) != 3 {
			out.Violate("C03", "harness", "expected 3 clients, got %d", len(tr.Clients))
			return out
		}
		get := cs.Method == "GET" || cs.Method == "HEAD"
		for i, c := range tr.Clients {
			if !c.Done {
				out.Violate("C02", "never-finished", "request %d never finished", i)
				continue
			}
			if c.Aborted {
				out.Violate("C02", "panic", "request %d aborted: %s", i, c.PanicVal)
				continue
			}
			// truthfulness
			if c.XStatus == "hit" && len(c.Ups) != 0 {
				out.Violate("C03", "label", "request %d is labelled hit but contacted the upstream %d time(s)", i, len(c.Ups))
			}
			if c.Code > 0 && c.Code < 500 && c.XStatus != "hit" && len(c.Ups) != 1 {
				out.Violate("C03", "label", "request %d (status %d, X-Status %q) contacted the upstream %d time(s)", i, c.Code, c.XStatus, len(c.Ups))
			}
			if !get {
				if len(c.Ups) != 1 {
					out.Violate("C03", "non-get-forwarded", "%s request %d was forwarded %d time(s)", cs.Method, i, len(c.Ups))
				}
				if c.XStatus != "passed" {
					out.Violate("C03", "label", "%s request %d is labelled %q", cs.Method, i, c.XStatus)
				}
			}
		}
		if len(out.Violations) > 0 {
			return out
		}
		r1 := tr.Clients[0]
		for i := 1; i < 3; i++ {
			r := tr.Clients[i]
			fromCache := len(r.Ups) == 0
			if fromCache && v == vNo {
				out.Violate("C03", "stored-unshareable", "%s response with headers %v (status %d) was stored and served to request %d (X-Status %q, serial %d) although it is not shareable", cs.Method, cs.Headers, cs.Status, i, r.XStatus, r.Serial)
			}
			if fromCache && r.Serial != r1.Serial {
				out.Violate("C03", "wrong-response", "request %d was served from cache with serial %d, not the stored response %d", i, r.Serial, r1.Serial)
			}
			if !fromCache && v == vYes && canonical && int64(cs.AdvMs) < L*1000 && i == 1 {
				out.Violate("C03", "shareable-not-stored", "GET/HEAD response with canonical headers %v (lifetime %d) was not stored: the second request went to the upstream", cs.Headers, L)
			}
			if !fromCache && r.Serial == r1.Serial {
				out.Violate("C03", "leaked", "request %d received the response fetched by request 0", i)
			}
		}
		// classes / non-trivial
		nd := 0
		multi := 0
		nonLower := false
		for _, kv := range cs.Headers {
			if kv[0] == "Cache-Control" {
				multi++
				nd += len(strings.Split(kv[1], ","))
				if kv[1] != strings.ToLower(kv[1]) {
					nonLower = true
				}
			}
		}
		hasCookieOrAge := false
		for _, kv := range cs.Headers {
			if kv[0] == "Set-Cookie" || kv[0] == "Age" {
				hasCookieOrAge = true
			}
		}
		out.NonTrivial = nd >= 2 || nonLower || multi >= 2 || hasCookieOrAge
		out.Class(fmt.Sprintf("verdict_%d", v))
		if canonical {
			out.Class("canonical")
		}
		if !get {
			out.Class("non_get_head")
		}
		if len(tr.Clients[1].Ups) == 0 {
			out.Class("second_served_from_cache")
		}
		// distinct by (method, normalised header multiset)
		out.Sig = cs.Method + "|" + fmt.Sprint(cs.Headers) + "|" + strconv.Itoa(cs.Status)
		return out
	}
}

func TestC03(t *testing.T) {
	installWedge(t, "C03")
	vstat.Run(t, "C03", "sim", genC03, execC03(t))
}
