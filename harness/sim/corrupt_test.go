//go:build verif && go1.25

package sim

import (
	"bytes"
	"encoding/binary"
	"net/http"
	"regexp"
	"strconv"
	"strings"

	"github.com/vicanso/pike/cache"
)

// syntheticRecord: a well-formed hit record (as pike writes it) used as the
// base of corruptions when the store holds nothing for the key
func syntheticRecord() []byte {
	resp, _ := cache.NewHTTPResponse(200, http.Header{"Content-Type": []string{"text/plain"}, "X-Synthetic": []string{"1"}}, "", []byte("synthetic record body that no upstream ever sent\n"))
	hc := cache.VerifNewEntry(cache.StatusHit, resp, 946684800, 946684800+3600)
	data, _ := hc.Bytes()
	return data
}

// filterRecord: a well-formed hit record whose response carries a content-type filter (as a
// server with compressContentTypeFilter writes it), with the filter text damaged so that it
// is no regular expression any more: first byte replaced by an invalid UTF-8 byte, an
// unbalanced bracket, or a dangling repetition operator
func filterRecord(n int) []byte {
	resp, _ := cache.NewHTTPResponse(200, http.Header{"Content-Type": []string{"text/plain"}, "X-Synthetic": []string{"1"}}, "", []byte("synthetic record body that no upstream ever sent\n"))
	resp.CompressContentTypeFilter = regexp.MustCompile("text|json|javascript")
	hc := cache.VerifNewEntry(cache.StatusHit, resp, 946684800, 4102444800)
	data, _ := hc.Bytes()
	i := bytes.Index(data, []byte("text|json|javascript"))
	if i < 0 {
		return data
	}
	data[i] = []byte{0xf4, '(', '[', '*', 0xff, '\\'}[((n%6)+6)%6]
	if data[i] == '\\' {
		// a trailing backslash: put it at the end of the text
		data[i] = 't'
		data[i+len("text|json|javascript")-1] = '\\'
	}
	return data
}

// corruptRecord builds the bytes a faulty store returns
func corruptRecord(fault string, data []byte, ok bool) []byte {
	base := data
	if !ok || len(base) == 0 {
		base = syntheticRecord()
	}
	i := strings.IndexByte(fault, ':')
	n, _ := strconv.Atoi(fault[i+1:])
	switch fault[:i] {
	case "badfilter":
		return filterRecord(n)
	case "trunc":
		// a strict prefix; the status field of the prefix says "hit"
		b := append([]byte{}, base...)
		binary.BigEndian.PutUint32(b, uint32(cache.StatusHit))
		cut := n % len(b)
		return b[:cut]
	case "status":
		b := append([]byte{}, base...)
		binary.BigEndian.PutUint32(b, uint32(n))
		return b
	default: // garbage
		x := uint64(n)*2862933555777941757 + 3037000493
		l := n % 97
		b := make([]byte, l)
		for j := range b {
			x = x*2862933555777941757 + 3037000493
			b[j] = byte(x >> 56)
		}
		return b
	}
}
