//go:build verif && go1.25

package sim

import (
	"encoding/binary"
	"net/http"
	"strconv"
	"strings"

	"github.com/vicanso/pike/cache"
)

// syntheticRecord: a well-formed hit record (as pike writes it) used as the
// base of corruptions when the store holds nothing for the key
func syntheticRecord() []byte {
	resp, _ := cache.NewHTTPResponse(200, http.Header{"Content-Type": []string{"text/plain"}, "X-Synthetic": []string{"1"}}, "", []byte("synthetic record body that no upstream ever sent\n"))
	hc := cache.VerifNewEntry(cache.StatusHit, resp, 946684800, 946684800+3600)
	data, _ := hc.Bytes()
	return data
}

// corruptRecord builds the bytes a faulty store returns
func corruptRecord(fault string, data []byte, ok bool) []byte {
	base := data
	if !ok || len(base) == 0 {
		base = syntheticRecord()
	}
	i := strings.IndexByte(fault, ':')
	n, _ := strconv.Atoi(fault[i+1:])
	switch fault[:i] {
	case "trunc":
		// a strict prefix; the status field of the prefix says "hit"
		b := append([]byte{}, base...)
		binary.BigEndian.PutUint32(b, uint32(cache.StatusHit))
		cut := n % len(b)
		return b[:cut]
	case "status":
		b := append([]byte{}, base...)
		binary.BigEndian.PutUint32(b, uint32(n))
		return b
	default: // garbage
		x := uint64(n)*2862933555777941757 + 3037000493
		l := n % 97
		b := make([]byte, l)
		for j := range b {
			x = x*2862933555777941757 + 3037000493
			b[j] = byte(x >> 56)
		}
		return b
	}
}
