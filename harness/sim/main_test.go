//go:build verif && go1.25

package sim

import (
	"testing"

	"verif/harness/internal/vstat"
)

func TestMain(m *testing.M) { vstat.Main(m) }
