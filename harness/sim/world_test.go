//go:build verif && go1.25

package sim

// Engine S: pike's real middleware chain (built by the real server.Start)
// driven inside a testing/synctest bubble.  The harness owns the clock (fake
// time of the bubble), the schedule (ops are interpreted one at a time, each
// followed by synctest.Wait; two yield points inside httpCache.Get let a
// request be parked) and the upstream (an in-memory RoundTripper).

import (
	"bufio"
	"bytes"
	"compress/gzip"
	"context"
	"errors"
	"fmt"
	"io"
	"net/http"
	"net/http/httptest"
	"net/url"
	"runtime"
	"sort"
	"strconv"
	"strings"
	"sync"
	"testing"
	"testing/synctest"
	"time"

	"github.com/andybalholm/brotli"
	"github.com/vicanso/elton"
	"github.com/vicanso/elton/middleware"
	"github.com/vicanso/pike/cache"
	"github.com/vicanso/pike/config"
	"github.com/vicanso/pike/location"
	pikelog "github.com/vicanso/pike/log"
	"github.com/vicanso/pike/server"
	"github.com/vicanso/pike/store"
	"github.com/vicanso/pike/upstream"
)

// ---------------------------------------------------------------------
// scenario types (JSON-serialisable: a saved scenario is the replay unit)

type Key struct {
	Method string `json:"m"`
	Host   string `json:"h"`
	URI    string `json:"u"`
	// Shard, when set, asks for a key that lands in that LRU shard: MemHash is
	// seeded per process, so the executor appends a query parameter z=<j> with
	// the smallest j that gives MemHash(key) % shards == Shard (replayable).
	Shard *int `json:"shard,omitempty"`
}

type Cfg struct {
	CacheSize      int    `json:"cacheSize,omitempty"` // 0 => 1000
	HFP            int    `json:"hfp,omitempty"`       // dispatcher hit-for-pass seconds (<=0: default 300)
	ProxyTimeoutMs int    `json:"proxyTimeoutMs,omitempty"`
	HFP2Unset      bool   `json:"hfp2Unset,omitempty"` // the second cache has no hitForPass of its own (default 300 s) while the first one has
	Store          string `json:"store,omitempty"` // "", "mem", "lazy" (ignores TTLs), "fault"
	TwoServers     bool   `json:"twoServers,omitempty"`
	SharedCache    bool   `json:"sharedCache,omitempty"` // both servers are bound to the first cache
}

type Outcome struct {
	Kind    string      `json:"kind"` // cacheable | uncacheable | raw | transport_error | body_abort
	T       int         `json:"t,omitempty"`
	Age     *int        `json:"age,omitempty"`
	SMaxAge bool        `json:"smaxage,omitempty"` // express T as s-maxage (with a different max-age)
	Why     string      `json:"why,omitempty"`     // uncacheable: no-cc | no-store | no-cache | private | set-cookie | max-age=0
	Status  int         `json:"status,omitempty"`  // 0 => 200
	BodyLen int         `json:"bodyLen,omitempty"` // filler bytes after the echo line
	CT      string      `json:"ct,omitempty"`      // content type, "" => text/plain
	Headers [][2]string `json:"headers,omitempty"` // raw: header lines in order
	ETag    string      `json:"etag,omitempty"`    // "" none | same (one strong validator per key) | ver (changes with every fetch)
	Enc     string      `json:"enc,omitempty"`     // upstream Content-Encoding: "" | gzip | gzip-broken (truncated stream, Content-Encoding gzip)
}

type Op struct {
	K     string            `json:"k"` // req | complete | advance | release | purge | fault
	Key   int               `json:"key,omitempty"`
	Srv   int               `json:"srv,omitempty"`
	AE    string            `json:"ae,omitempty"`
	Hdr   map[string]string `json:"hdr,omitempty"`
	Park  int               `json:"park,omitempty"` // bit0: park at get.registered, bit1: park at get.woken, bit2: park at get.enter (after the entry lookup)
	Pick  int               `json:"pick,omitempty"`
	Out   *Outcome          `json:"out,omitempty"`
	Ms    int               `json:"ms,omitempty"`
	Cache string            `json:"cache,omitempty"` // purge: "" | c1 | c2 | nope
	Call  string            `json:"call,omitempty"`  // fault: get | set | delete
	Fault string            `json:"fault,omitempty"` // notfound | error | trunc:<n> | garbage:<seed> | status:<n> | badfilter:<n>
}

type Scenario struct {
	Cfg  Cfg   `json:"cfg"`
	Keys []Key `json:"keys"`
	Ops  []Op  `json:"ops"`
}

// ---------------------------------------------------------------------
// process-wide setup (outside any bubble)

const (
	srvAddr1 = "127.0.0.1:0"
	srvAddr2 = "127.0.0.2:0"
	upName   = "simup"
)

var (
	setupOnce sync.Once
	handlers  [2]http.Handler
	caseSeq   int
	curWorld  *world // the world of the running case (one case at a time per process)
	curMu     sync.Mutex
)

// a case that does not finish within wedgeAfter (real time; cases take
// milliseconds) is wedged: some goroutine is blocked on a lock whose holder
// never proceeds, so the bubble can never become quiescent.
var wedgeAfter = 40 * time.Second

var onWedge func(sc Scenario)

func currentWorld() *world {
	curMu.Lock()
	defer curMu.Unlock()
	return curWorld
}

type simTransport struct{}

func (simTransport) RoundTrip(req *http.Request) (*http.Response, error) {
	w := currentWorld()
	if w == nil {
		return nil, errors.New("no simulation world")
	}
	return w.roundTrip(req)
}

func setup(t *testing.T) {
	setupOnce.Do(func() {
		pikelog.SetOutputPath("/dev/null")
		upstream.Reset([]config.UpstreamConfig{{
			Name:    upName,
			Servers: []config.UpstreamServerConfig{{Addr: "http://127.0.0.1:1"}},
		}})
		target, _ := url.Parse("http://upstream.sim")
		up := upstream.Get(upName)
		if up == nil {
			t.Fatalf("upstream not registered")
		}
		// the same elton proxy middleware pike builds, with the in-memory transport
		up.Proxy = middleware.NewProxy(middleware.ProxyConfig{
			Transport: simTransport{},
			TargetPicker: func(c *elton.Context) (*url.URL, middleware.ProxyDone, error) {
				return target, nil, nil
			},
		})
		cache.VerifSetPoint(yieldPoint)
		applyCfg(Cfg{}, "boot")
		if err := server.Start(); err != nil {
			t.Fatalf("server start: %v", err)
		}
		for i, addr := range []string{srvAddr1, srvAddr2} {
			s := server.Get(addr)
			if s == nil || s.VerifHandler() == nil {
				t.Fatalf("server %s has no handler", addr)
			}
			handlers[i] = s.VerifHandler()
		}
	})
}

// applyCfg (re)configures caches, locations and servers for one case, by the
// same exported Reset functions main.update uses.
func applyCfg(cfg Cfg, tag string) (cacheNames [2]string) {
	return applyCfgExtra(cfg, tag, false)
}

func applyCfgExtra(cfg Cfg, tag string, extra bool) (cacheNames [2]string) {
	size := cfg.CacheSize
	if size <= 0 {
		size = 1000
	}
	cacheNames = [2]string{"c1-" + tag, "c2-" + tag}
	hfp := "0s"
	if cfg.HFP != 0 {
		hfp = strconv.Itoa(cfg.HFP) + "s"
	}
	caches := []config.CacheConfig{}
	for i, n := range cacheNames {
		cc := config.CacheConfig{Name: n, Size: size, HitForPass: hfp}
		if i == 1 && cfg.HFP2Unset {
			cc.HitForPass = ""
		}
		if cfg.Store != "" {
			cc.Store = "verifmem://" + n
		}
		caches = append(caches, cc)
	}
	if extra {
		caches = append(caches, config.CacheConfig{Name: "unrelated-" + tag, Size: 10, HitForPass: "1m"})
	}
	cache.ResetDispatchers(caches)
	loc := config.LocationConfig{Name: "simloc", Upstream: upName}
	if cfg.ProxyTimeoutMs > 0 {
		loc.ProxyTimeout = strconv.Itoa(cfg.ProxyTimeoutMs) + "ms"
	}
	location.Reset([]config.LocationConfig{loc})
	server.Reset([]config.ServerConfig{
		{Addr: srvAddr1, Locations: []string{"simloc"}, Cache: cacheNames[0]},
		{Addr: srvAddr2, Locations: []string{"simloc"}, Cache: cacheNames[map[bool]int{true: 0, false: 1}[cfg.SharedCache]]},
	})
	return
}

// ---------------------------------------------------------------------
// world: per-case state

type upReq struct {
	Serial   int
	Client   int
	Method   string
	Host     string
	URI      string
	Header   http.Header
	ArriveMs int64
	EndMs    int64
	Ended    bool
	EndKind  string // outcome kind | "timeout"
	Out      *Outcome
	Sent     http.Header // the end-to-end headers of the answer
	ch       chan *Outcome
	WantTimeoutMs int // the location's configured proxy timeout (0 none)
	Deadline int64 // ms, 0 = none
}

type clientRec struct {
	ID        int
	Key       int
	Srv       int
	Cache     int // index of the cache the server is bound to
	Op        Op
	StartMs   int64
	EndMs     int64
	Done      bool
	Invalid   bool // request line rejected by net/http itself
	CacheKey  string // the key pike derives from the request as parsed
	Aborted   bool // handler panicked (net/http would abort the connection)
	PanicVal  string
	Code      int
	Header    http.Header
	Body      []byte // decoded per Content-Encoding
	DecodeErr string
	RawLen    int
	XStatus   string
	AgeHdr    string
	Echo      string // echo line found in body or X-Echo
	Serial    int    // serial parsed from echo (-1 none)
	Ups       []int  // serials of upstream requests made on behalf of this client
	parkedAt  string
	parkCh    chan struct{}
	parkBits  int
	cancel    context.CancelFunc
	Gone      bool // the client went away while its own upstream exchange was in flight
	Cancelled bool // the client went away (its request context was cancelled) while it had no upstream exchange of its own
}

type world struct {
	shared    bool
	tag       string
	mu        sync.Mutex
	t0        time.Time
	keys      []Key
	clients   []*clientRec
	ups       []*upReq
	goids     map[int64]int // goroutine id -> client id
	evictions []evictEv
	evChecked int
	upsChecked int
	resident  [2]map[string]bool // C11: keys each cache should hold in memory
	cacheSize int
	proxyTimeoutMs int
	fullSeen  bool // some shard was filled to its limit
	stores    [2]*memStore
	cacheName [2]string
}

type evictEv struct {
	Cache int
	Key   string
	Ms    int64
}

func (w *world) nowMs() int64 { return time.Since(w.t0).Milliseconds() }

func goid() int64 {
	var buf [64]byte
	n := runtime.Stack(buf[:], false)
	// "goroutine 123 ["
	s := buf[len("goroutine "):n]
	i := bytes.IndexByte(s, ' ')
	id, _ := strconv.ParseInt(string(s[:i]), 10, 64)
	return id
}

func yieldPoint(name string) {
	w := currentWorld()
	if w == nil {
		return
	}
	g := goid()
	w.mu.Lock()
	cid, ok := w.goids[g]
	if !ok {
		w.mu.Unlock()
		return
	}
	c := w.clients[cid]
	bit := 1
	switch name {
	case "get.woken":
		bit = 2
	case "get.enter":
		bit = 4 // the entry has been looked up, nothing has been asked of it yet
	}
	if c.parkBits&bit == 0 {
		w.mu.Unlock()
		return
	}
	if bit == 1 {
		// A waiter is parked between registering and waiting only while every
		// earlier waiter of that key is parked there too: the completer then
		// blocks on its first hand-over before it has woken anybody, which keeps
		// the bubble quiescent (a woken waiter needs the entry's read lock).
		pend := map[int]bool{}
		for _, u := range w.ups {
			if !u.Ended {
				pend[u.Client] = true
			}
		}
		for _, o := range w.clients {
			if o.ID != c.ID && o.Cache == c.Cache && o.Key == c.Key && !o.Done && o.parkCh == nil && !pend[o.ID] {
				c.parkBits &^= bit
				w.mu.Unlock()
				return
			}
		}
	}
	c.parkBits &^= bit
	c.parkedAt = name
	ch := make(chan struct{})
	c.parkCh = ch
	w.mu.Unlock()
	<-ch
}

func echoLine(method, host, uri string, serial int) string {
	return fmt.Sprintf("%s %s %s #%d", method, host, uri, serial)
}

func (w *world) roundTrip(req *http.Request) (*http.Response, error) {
	cid := -1
	if v := req.Header.Get("X-Req-Id"); v != "" {
		cid, _ = strconv.Atoi(v)
	}
	w.mu.Lock()
	u := &upReq{
		Serial: len(w.ups) + 1, Client: cid, Method: req.Method, Host: req.Host, URI: req.URL.RequestURI(),
		Header: req.Header.Clone(), ArriveMs: w.nowMs(), ch: make(chan *Outcome, 1),
	}
	if dl, ok := req.Context().Deadline(); ok {
		u.Deadline = dl.Sub(w.t0).Milliseconds()
	}
	u.WantTimeoutMs = w.proxyTimeoutMs
	w.ups = append(w.ups, u)
	if cid >= 0 && cid < len(w.clients) {
		w.clients[cid].Ups = append(w.clients[cid].Ups, u.Serial)
	}
	w.mu.Unlock()
	var out *Outcome
	ctxDone := req.Context().Done()
	w.mu.Lock()
	gone := cid >= 0 && cid < len(w.clients) && w.clients[cid].Cancelled
	w.mu.Unlock()
	if gone {
		// the client of this request went away earlier (op cancel). What such a request still does
		// is its own business, but it must not disturb anybody else: its exchange is answered like
		// any other (only a proxy deadline still ends it), so the model needs no special case.
		ctxDone = nil
		if u.Deadline > 0 {
			dl := make(chan struct{})
			tm := time.AfterFunc(time.Duration(u.Deadline-u.ArriveMs)*time.Millisecond, func() { close(dl) })
			defer tm.Stop()
			ctxDone = dl
		}
	}
	select {
	case out = <-u.ch:
	case <-ctxDone:
		w.mu.Lock()
		u.Ended, u.EndMs, u.EndKind = true, w.nowMs(), "timeout"
		w.mu.Unlock()
		if err := req.Context().Err(); err != nil && !gone {
			return nil, err // context.Canceled when the client went away, DeadlineExceeded for the proxy timeout
		}
		return nil, context.DeadlineExceeded
	}
	w.mu.Lock()
	u.Ended, u.EndMs, u.EndKind, u.Out = true, w.nowMs(), out.Kind, out
	w.mu.Unlock()
	if out.Kind == "transport_error" {
		return nil, errors.New("sim: connection reset by peer")
	}
	return buildResponse(req, u, out), nil
}

type abortReader struct {
	data []byte
	pos  int
}

func (a *abortReader) Read(p []byte) (int, error) {
	if a.pos >= len(a.data) {
		return 0, errors.New("sim: unexpected EOF in upstream body")
	}
	n := copy(p, a.data[a.pos:])
	a.pos += n
	return n, nil
}

func filler(n int, serial int) []byte {
	if n <= 0 {
		return nil
	}
	if n >= 5000 {
		// poorly compressible text (hex noise): stays above the 1 KiB threshold once compressed
		b := make([]byte, n)
		x := uint64(serial)*2862933555777941757 + 3037000493
		for i := range b {
			x = x*2862933555777941757 + 3037000493
			b[i] = "0123456789abcdef"[x>>60]
		}
		return b
	}
	// compressible text, varies with serial
	unit := []byte(fmt.Sprintf("lorem ipsum %d dolor sit amet ", serial))
	b := make([]byte, 0, n+len(unit))
	for len(b) < n {
		b = append(b, unit...)
	}
	return b[:n]
}

func buildResponse(req *http.Request, u *upReq, out *Outcome) *http.Response {
	h := http.Header{}
	status := out.Status
	if status == 0 {
		status = 200
	}
	line := echoLine(u.Method, u.Host, u.URI, u.Serial)
	h.Set("X-Echo", line)
	ct := out.CT
	if ct == "" {
		ct = "text/plain"
	}
	h.Set("Content-Type", ct)
	switch out.Kind {
	case "cacheable":
		cc := "max-age=" + strconv.Itoa(out.T)
		if out.SMaxAge {
			cc = "max-age=" + strconv.Itoa(out.T+7) + ", s-maxage=" + strconv.Itoa(out.T)
		}
		h.Set("Cache-Control", cc)
		if out.Age != nil {
			h.Set("Age", strconv.Itoa(*out.Age))
		}
		switch out.ETag {
		case "same":
			h.Set("Etag", fmt.Sprintf(`"%x"`, len(u.URI)*131+len(u.Host)))
			h.Set("Last-Modified", "Thu, 01 Jan 1998 00:00:00 GMT")
		case "ver":
			h.Set("Etag", fmt.Sprintf(`"s%d"`, u.Serial))
		}
	case "uncacheable", "body_abort":
		switch out.Why {
		case "no-store":
			h.Set("Cache-Control", "no-store")
		case "no-cache":
			h.Set("Cache-Control", "no-cache, max-age=30")
		case "private":
			h.Set("Cache-Control", "private, max-age=30")
		case "set-cookie":
			h.Set("Cache-Control", "max-age=30")
			h.Add("Set-Cookie", "sid=1")
		case "max-age=0":
			h.Set("Cache-Control", "max-age=0")
		case "cacheable-headers": // body_abort with cacheable headers
			h.Set("Cache-Control", "max-age=30")
		default: // no-cc
		}
	case "raw":
		for _, kv := range out.Headers {
			h.Add(kv[0], kv[1])
		}
	}
	var body []byte
	if req.Method != http.MethodHead {
		body = append([]byte(line+"\n"), filler(out.BodyLen, u.Serial)...)
		if out.Enc == "gzip" || out.Enc == "gzip-broken" {
			var zb bytes.Buffer
			zw := gzip.NewWriter(&zb)
			_, _ = zw.Write(body)
			_ = zw.Close()
			body = zb.Bytes()
			if out.Enc == "gzip-broken" && len(body) > 12 {
				body = body[:len(body)-9] // trailer and the end of the deflate stream are missing
			}
			h.Set("Content-Encoding", "gzip")
		}
	}
	h.Set("Vary", "Accept-Encoding, X-Client-Kind") // a value with a comma, like every HTTP date
	u.Sent = h.Clone()
	resp := &http.Response{
		StatusCode: status, Status: strconv.Itoa(status) + " " + http.StatusText(status),
		Proto: "HTTP/1.1", ProtoMajor: 1, ProtoMinor: 1, Header: h, Request: req,
		ContentLength: int64(len(body)),
	}
	if out.Kind == "body_abort" {
		resp.ContentLength = int64(len(body) + 10)
		resp.Body = io.NopCloser(&abortReader{data: body})
	} else {
		resp.Body = io.NopCloser(bytes.NewReader(body))
	}
	return resp
}

// ---------------------------------------------------------------------
// client

func (w *world) startClient(op Op) *clientRec {
	k := w.keys[op.Key%len(w.keys)]
	w.mu.Lock()
	c := &clientRec{ID: len(w.clients), Key: op.Key % len(w.keys), Srv: op.Srv & 1, Op: op, StartMs: w.nowMs(), Serial: -1, parkBits: op.Park}
	c.Cache = c.Srv
	if w.shared {
		c.Cache = 0
	}
	w.clients = append(w.clients, c)
	w.mu.Unlock()
	go func() {
		g := goid()
		w.mu.Lock()
		w.goids[g] = c.ID
		w.mu.Unlock()
		req, err := http.ReadRequest(bufio.NewReader(strings.NewReader(k.Method + " " + k.URI + " HTTP/1.1\r\nHost: " + k.Host + "\r\n\r\n")))
		if err != nil {
			// not a request line a net/http server would hand to pike
			w.mu.Lock()
			c.Done, c.EndMs, c.Code, c.Invalid = true, w.nowMs(), 400, true
			delete(w.goids, g)
			w.mu.Unlock()
			return
		}
		req.RemoteAddr = "192.0.2.1:1234"
		w.mu.Lock()
		c.CacheKey = req.Method + " " + req.Host + " " + req.RequestURI
		w.mu.Unlock()
		req.Header.Set("X-Req-Id", strconv.Itoa(c.ID))
		if op.AE != "" {
			req.Header.Set("Accept-Encoding", op.AE)
		}
		for hk, hv := range op.Hdr {
			req.Header.Set(hk, hv)
		}
		srv := &http.Server{}
		ctx, cancel := context.WithCancel(context.WithValue(req.Context(), http.ServerContextKey, srv))
		defer cancel()
		w.mu.Lock()
		c.cancel = cancel
		w.mu.Unlock()
		req = req.WithContext(ctx)
		rec := httptest.NewRecorder()
		defer func() {
			if r := recover(); r != nil {
				w.mu.Lock()
				c.Aborted, c.PanicVal = true, fmt.Sprint(r)
				c.Done, c.EndMs = true, w.nowMs()
				delete(w.goids, g)
				w.mu.Unlock()
			}
		}()
		handlers[c.Srv].ServeHTTP(rec, req)
		res := rec.Result()
		raw, _ := io.ReadAll(res.Body)
		w.mu.Lock()
		defer w.mu.Unlock()
		delete(w.goids, g)
		c.Code = res.StatusCode
		c.Header = res.Header
		c.RawLen = len(raw)
		c.XStatus = res.Header.Get("X-Status")
		c.AgeHdr = res.Header.Get("Age")
		body := raw
		switch res.Header.Get("Content-Encoding") {
		case "gzip":
			r, err := gzip.NewReader(bytes.NewReader(raw))
			if err != nil {
				c.DecodeErr = err.Error()
			} else if b, err := io.ReadAll(r); err != nil {
				c.DecodeErr = err.Error()
			} else {
				body = b
			}
		case "br":
			b, err := io.ReadAll(brotli.NewReader(bytes.NewReader(raw)))
			if err != nil {
				c.DecodeErr = err.Error()
			} else {
				body = b
			}
		case "":
		default:
			c.DecodeErr = "unexpected Content-Encoding " + res.Header.Get("Content-Encoding")
		}
		c.Body = body
		c.Echo = res.Header.Get("X-Echo")
		if i := bytes.IndexByte(body, '\n'); i >= 0 && k.Method != http.MethodHead {
			c.Echo = string(body[:i])
		}
		if i := strings.LastIndex(c.Echo, "#"); i >= 0 {
			if n, err := strconv.Atoi(c.Echo[i+1:]); err == nil {
				c.Serial = n
			}
		}
		c.Done, c.EndMs = true, w.nowMs()
	}()
	return c
}

// ---------------------------------------------------------------------
// in-memory store (registered through the verif hook, reached by the real store.NewStore)

type memRecord struct {
	data     []byte
	deadline int64 // ms on the world clock; 0 = none
}

type memStore struct {
	mu     sync.Mutex
	lazy   bool // ignores the TTL, like a store whose expiry job lags (pike re-checks the absolute expiry itself)
	w      *world
	data   map[string]memRecord
	faults map[string][]string // call -> queued faults
	calls  []storeCall
}

type storeCall struct {
	Call  string
	Key   string
	Fault string
	Ms    int64
	Found bool
}

var errInjected = errors.New("sim: injected store failure")

func (m *memStore) nextFault(call string) string {
	q := m.faults[call]
	if len(q) == 0 {
		return ""
	}
	f := q[0]
	m.faults[call] = q[1:]
	return f
}

func (m *memStore) Get(key []byte) ([]byte, error) {
	m.mu.Lock()
	defer m.mu.Unlock()
	f := m.nextFault("get")
	now := m.w.nowMs()
	rec, ok := m.data[string(key)]
	if ok && rec.deadline != 0 && now >= rec.deadline && !m.lazy {
		delete(m.data, string(key))
		ok = false
	}
	m.calls = append(m.calls, storeCall{"get", string(key), f, now, ok})
	switch {
	case f == "notfound":
		return nil, store.ErrNotFound
	case f == "error":
		return nil, errInjected
	case strings.HasPrefix(f, "trunc:"), strings.HasPrefix(f, "status:"), strings.HasPrefix(f, "garbage:"), strings.HasPrefix(f, "badfilter:"):
		return corruptRecord(f, rec.data, ok), nil
	}
	if !ok {
		return nil, store.ErrNotFound
	}
	return append([]byte{}, rec.data...), nil
}

func (m *memStore) Set(key []byte, data []byte, ttl time.Duration) error {
	m.mu.Lock()
	defer m.mu.Unlock()
	f := m.nextFault("set")
	now := m.w.nowMs()
	m.calls = append(m.calls, storeCall{"set", string(key), f, now, false})
	if f == "error" {
		return errInjected
	}
	rec := memRecord{data: append([]byte{}, data...)}
	if ttl > 0 {
		rec.deadline = now + ttl.Milliseconds()
	}
	m.data[string(key)] = rec
	return nil
}

func (m *memStore) Delete(key []byte) error {
	m.mu.Lock()
	defer m.mu.Unlock()
	f := m.nextFault("delete")
	_, ok := m.data[string(key)]
	m.calls = append(m.calls, storeCall{"delete", string(key), f, m.w.nowMs(), ok})
	if f == "error" {
		return errInjected
	}
	delete(m.data, string(key))
	return nil
}

func (m *memStore) Close() error { return nil }

func (m *memStore) has(key string) bool {
	m.mu.Lock()
	defer m.mu.Unlock()
	rec, ok := m.data[key]
	if ok && rec.deadline != 0 && m.w.nowMs() >= rec.deadline && !m.lazy {
		return false
	}
	return ok
}

// ---------------------------------------------------------------------
// interpreter

type snapshot struct {
	OpIdx   int
	Ms      int64
	Pending []int          // upstream serials not yet answered
	State   map[int]string // client id -> done | pending | parked:<point> | blocked
}

type trace struct {
	Scenario  Scenario
	Clients   []*clientRec
	Ups       []*upReq
	Deadlock  string
	Stuck     []int // clients not finished after the drain
	Skipped   int
	Evictions []evictEv
	FullSeen  bool
}

func (w *world) pendingUps() []*upReq {
	var res []*upReq
	for _, u := range w.ups {
		if !u.Ended {
			res = append(res, u)
		}
	}
	return res
}

func (w *world) parkedClients() []*clientRec {
	var res []*clientRec
	for _, c := range w.clients {
		if c.parkCh != nil {
			res = append(res, c)
		}
	}
	return res
}

func (w *world) snapshot(opIdx int) snapshot {
	w.mu.Lock()
	defer w.mu.Unlock()
	s := snapshot{OpIdx: opIdx, Ms: w.nowMs(), State: map[int]string{}}
	pend := map[int]bool{}
	for _, u := range w.ups {
		if !u.Ended {
			s.Pending = append(s.Pending, u.Serial)
			pend[u.Client] = true
		}
	}
	for _, c := range w.clients {
		switch {
		case c.Done:
			s.State[c.ID] = "done"
		case c.parkCh != nil:
			s.State[c.ID] = "parked:" + c.parkedAt
		case pend[c.ID]:
			s.State[c.ID] = "pending"
		default:
			s.State[c.ID] = "blocked"
		}
	}
	return s
}

func materialiseKey(k Key, zones int) Key {
	if k.Shard == nil || zones <= 0 {
		return k
	}
	want := uint64(((*k.Shard % zones) + zones) % zones)
	sep := "?"
	if strings.Contains(k.URI, "?") {
		sep = "&"
	}
	for j := 0; j < 100000; j++ {
		c := Key{Method: k.Method, Host: k.Host, URI: k.URI + sep + "z=" + strconv.Itoa(j)}
		if cache.MemHash(keyBytes(c))%uint64(zones) == want {
			return c
		}
	}
	return k
}

func keyBytes(k Key) []byte { return []byte(k.Method + " " + k.Host + " " + k.URI) }

// runScenario executes sc inside a fresh bubble and feeds the model after every op.
func runScenario(t *testing.T, sc Scenario, m *model) (tr *trace) {
	setup(t)
	tr = &trace{Scenario: sc}
	if len(sc.Keys) == 0 {
		return tr
	}
	caseSeq++
	tag := strconv.Itoa(caseSeq)
	w := &world{keys: sc.Keys, goids: map[int64]int{}, tag: tag, shared: sc.Cfg.SharedCache}
	defer func() {
		if r := recover(); r != nil {
			tr.Deadlock = fmt.Sprint(r)
		}
		curMu.Lock()
		curWorld = nil
		curMu.Unlock()
		for i := range w.stores {
			if w.stores[i] != nil {
				store.VerifUnregisterStore("verifmem://" + w.cacheName[i])
			}
		}
		w.mu.Lock()
		tr.Clients, tr.Ups, tr.Evictions = w.clients, w.ups, w.evictions
		tr.FullSeen = w.fullSeen
		for _, c := range w.clients {
			if !c.Done {
				tr.Stuck = append(tr.Stuck, c.ID)
			}
		}
		w.mu.Unlock()
	}()
	watchdog := time.AfterFunc(wedgeAfter, func() {
		if onWedge != nil {
			onWedge(sc)
		}
	})
	defer watchdog.Stop()
	synctest.Test(t, func(t *testing.T) {
		w.t0 = time.Now()
		w.cacheName = [2]string{"c1-" + tag, "c2-" + tag}
		if sc.Cfg.Store != "" {
			for i := range w.stores {
				w.stores[i] = &memStore{w: w, lazy: sc.Cfg.Store == "lazy", data: map[string]memRecord{}, faults: map[string][]string{}}
				store.VerifRegisterStore("verifmem://"+w.cacheName[i], w.stores[i])
			}
		}
		applyCfg(sc.Cfg, tag)
		w.proxyTimeoutMs = sc.Cfg.ProxyTimeoutMs
		w.cacheSize = sc.Cfg.CacheSize
		if w.cacheSize <= 0 {
			w.cacheSize = 1000
		}
		for i, n := range w.cacheName {
			ci := i
			if d := cache.GetDispatcher(n); d != nil {
				d.VerifOnEvicted(func(_ int, key string) {
					// called with the shard lock held, possibly from a client goroutine
					w.mu.Lock()
					w.evictions = append(w.evictions, evictEv{ci, key, w.nowMs()})
					w.mu.Unlock()
				})
			}
		}
		if d := cache.GetDispatcher(w.cacheName[0]); d != nil {
			zones := len(d.VerifLen())
			keys := make([]Key, len(sc.Keys))
			for i, k := range sc.Keys {
				keys[i] = materialiseKey(k, zones)
			}
			w.keys = keys
			sc.Keys = keys
		}
		curMu.Lock()
		curWorld = w
		curMu.Unlock()
		m.begin(w, sc)
		for i, op := range sc.Ops {
			w.execOp(i, op, m, tr)
			if m.fatal() {
				break
			}
		}
		w.drain(m, tr)
	})
	return tr
}

// advanceTo sleeps until ms on the virtual clock, stopping at every proxy
// deadline on the way so that each timer instant gets its own quiescent point
func (w *world) advance(opIdx int, ms int64, m *model) {
	target := w.nowMs() + ms
	for {
		w.mu.Lock()
		next := int64(-1)
		for _, u := range w.pendingUps() {
			if u.Deadline > 0 && u.Deadline <= target && (next < 0 || u.Deadline < next) {
				next = u.Deadline
			}
		}
		w.mu.Unlock()
		now := w.nowMs()
		if next < 0 || next <= now {
			if target > now {
				time.Sleep(time.Duration(target-now) * time.Millisecond)
			}
			synctest.Wait()
			m.step(opIdx, "advance", nil, w.snapshot(opIdx))
			w.handover(opIdx, m)
			if next < 0 || w.nowMs() >= target {
				return
			}
			continue
		}
		time.Sleep(time.Duration(next-now) * time.Millisecond)
		synctest.Wait()
		m.step(opIdx, "advance", nil, w.snapshot(opIdx))
		w.handover(opIdx, m)
	}
}

// handover: a fetch that ended while a waiter was parked between registering
// and waiting keeps the entry lock until that waiter arrives; nothing else is
// interleaved in that window (a goroutine blocked on the mutex would not be
// durably blocked and the bubble could never become quiescent), so such
// waiters are released right away, one at a time.
func (w *world) handover(opIdx int, m *model) {
	for n := 0; n < 1000; n++ {
		w.mu.Lock()
		// a completer stuck in a hand-over: its upstream exchange(s) ended, yet it is
		// neither finished nor parked
		pend := map[int]bool{}
		for _, u := range w.ups {
			if !u.Ended {
				pend[u.Client] = true
			}
		}
		var group []*clientRec
		for _, c := range w.clients {
			if c.Done || c.parkCh != nil || pend[c.ID] || len(c.Ups) == 0 {
				continue
			}
			for _, o := range w.clients {
				if o.parkCh != nil && o.parkedAt == "get.registered" && o.Cache == c.Cache && o.Key == c.Key {
					close(o.parkCh)
					o.parkCh = nil
					o.parkedAt = ""
					group = append(group, o)
				}
			}
		}
		w.mu.Unlock()
		if len(group) == 0 {
			return
		}
		synctest.Wait()
		snap := w.snapshot(opIdx)
		for _, c := range group {
			m.step(opIdx, "release:get.registered", c, snap)
		}
	}
}

func (w *world) execOp(i int, op Op, m *model, tr *trace) {
	w.execOp1(i, op, m, tr)
	w.checkResidency(i, op, m)
}

// checkResidency (C11): after every operation the keys each cache holds in memory are
// exactly those the history accounts for -- every key requested (GET/HEAD) since it was last
// dropped or purged, never more than the configured size, and the index of every shard holds
// as many keys as its recency list. A removal reported for a key that is not resident means
// something else than the reported key was dropped.
func (w *world) checkResidency(i int, op Op, m *model) {
	w.mu.Lock()
	evs := append([]evictEv{}, w.evictions[w.evChecked:]...)
	w.evChecked = len(w.evictions)
	newUps := append([]*upReq{}, w.ups[w.upsChecked:]...)
	w.upsChecked = len(w.ups)
	w.mu.Unlock()
	// C02 (outcome "proxy timeout"): every upstream exchange of a location with a proxy timeout
	// carries that deadline, counted from the moment the exchange starts
	for _, u := range newUps {
		if u.WantTimeoutMs <= 0 {
			continue
		}
		want := u.ArriveMs + int64(u.WantTimeoutMs)
		if u.Deadline == 0 || u.Deadline < want-5 || u.Deadline > want+5 {
			m.viol("C02", "proxy-deadline", "op %d: upstream exchange #%d started at %d ms under a proxy timeout of %d ms but its deadline is %d ms (0 = none)", i, u.Serial, u.ArriveMs, u.WantTimeoutMs, u.Deadline)
		}
	}
	for _, ev := range evs {
		if w.resident[ev.Cache] == nil || !w.resident[ev.Cache][ev.Key] {
			m.viol("C11", "removed-key-not-resident", "op %d (%s): cache %d reported the removal of key %q, which was not resident (resident: %d keys)", i, op.K, ev.Cache, ev.Key, len(w.resident[ev.Cache]))
			continue
		}
		delete(w.resident[ev.Cache], ev.Key)
	}
	size := w.cacheSize
	for ci, name := range w.cacheName {
		if w.shared && ci == 1 {
			continue
		}
		d := cache.GetDispatcher(name)
		if d == nil {
			continue
		}
		lists, index := d.VerifLen(), d.VerifIndexLen()
		total := 0
		for j := range lists {
			total += lists[j]
			if index[j] != lists[j] {
				m.viol("C11", "index-vs-list", "op %d (%s): shard %d of cache %d holds %d keys in its index but %d in its recency list (size %d)", i, op.K, j, ci, index[j], lists[j], size)
			}
		}
		if total > size {
			m.viol("C11", "resident-above-size", "op %d (%s): cache %d of size %d holds %d keys in memory", i, op.K, ci, size, total)
		}
		if total != len(w.resident[ci]) {
			m.viol("C11", "resident-count", "op %d (%s): cache %d holds %d keys, the history accounts for %d (requested and neither dropped nor purged since)", i, op.K, ci, total, len(w.resident[ci]))
		}
		for j := range lists {
			if lists[j] == size/len(lists) {
				w.fullSeen = true
			}
		}
	}
}

func (w *world) execOp1(i int, op Op, m *model, tr *trace) {
	switch op.K {
	case "req":
		c := w.startClient(op)
		synctest.Wait()
		if k := w.keys[c.Key]; !c.Invalid && (k.Method == "GET" || k.Method == "HEAD") {
			if w.resident[c.Cache] == nil {
				w.resident[c.Cache] = map[string]bool{}
			}
			w.mu.Lock()
			ck := c.CacheKey
			w.mu.Unlock()
			w.resident[c.Cache][ck] = true
		}
		m.step(i, "req", c, w.snapshot(i))
	case "complete":
		w.mu.Lock()
		pend := w.pendingUps()
		w.mu.Unlock()
		if len(pend) == 0 || op.Out == nil {
			tr.Skipped++
			return
		}
		u := pend[((op.Pick%len(pend))+len(pend))%len(pend)]
		u.ch <- op.Out
		synctest.Wait()
		m.step(i, "complete", u, w.snapshot(i))
		w.handover(i, m)
	case "advance":
		w.advance(i, int64(op.Ms), m)
	case "release":
		w.mu.Lock()
		parked := w.parkedClients()
		if len(parked) == 0 {
			w.mu.Unlock()
			tr.Skipped++
			return
		}
		c := parked[((op.Pick%len(parked))+len(parked))%len(parked)]
		point := c.parkedAt
		group := []*clientRec{c}
		if point == "get.registered" {
			// all waiters parked at this point on the same key leave together (see yieldPoint)
			group = group[:0]
			for _, o := range parked {
				if o.parkedAt == point && o.Cache == c.Cache && o.Key == c.Key {
					group = append(group, o)
				}
			}
		}
		for _, o := range group {
			close(o.parkCh)
			o.parkCh = nil
			o.parkedAt = ""
		}
		w.mu.Unlock()
		synctest.Wait()
		snap := w.snapshot(i)
		for _, o := range group {
			m.step(i, "release:"+point, o, snap)
		}
	case "cancel":
		// a client that is waiting (no upstream exchange of its own) goes away
		w.mu.Lock()
		pendOf := map[int]bool{}
		for _, u := range w.ups {
			if !u.Ended {
				pendOf[u.Client] = true
			}
		}
		// op.Srv == 1: a client whose own upstream exchange is in flight (a fetcher, a pass) goes away;
		// its exchange ends there and then, like one that ran into the proxy timeout
		var cands []*clientRec
		for _, c := range w.clients {
			if !c.Done && !c.Cancelled && !c.Gone && pendOf[c.ID] == (op.Srv == 1) && c.cancel != nil {
				cands = append(cands, c)
			}
		}
		if len(cands) == 0 {
			w.mu.Unlock()
			tr.Skipped++
			return
		}
		c := cands[((op.Pick%len(cands))+len(cands))%len(cands)]
		if op.Srv == 1 {
			c.Gone = true
		} else {
			c.Cancelled = true
		}
		cancel := c.cancel
		w.mu.Unlock()
		cancel()
		synctest.Wait()
		m.step(i, "advance", nil, w.snapshot(i))
		w.handover(i, m)
	case "purge":
		name := op.Cache
		switch name {
		case "c1":
			name = w.cacheName[0]
		case "c2":
			name = w.cacheName[1]
		}
		k := w.keys[op.Key%len(w.keys)]
		done := make(chan struct{})
		go func() {
			cache.RemoveHTTPCache(name, keyBytes(k))
			close(done)
		}()
		synctest.Wait()
		returned := false
		select {
		case <-done:
			returned = true
		default:
		}
		m.purged(i, op, returned, w.snapshot(i))
	case "reload":
		// a configuration reload that leaves everything as it is (plus an unrelated
		// cache): the call sequence of main.update for caches, locations, servers
		applyCfgExtra(tr.Scenario.Cfg, w.tag, true)
		synctest.Wait()
		m.step(i, "advance", nil, w.snapshot(i))
	case "fault":
		if tr.Scenario.Cfg.Store != "fault" {
			// only the fault store (whose call log the model follows) takes injected faults
			tr.Skipped++
			return
		}
		m.noteFault(op)
		for _, s := range w.stores {
			if s != nil {
				s.mu.Lock()
				s.faults[op.Call] = append(s.faults[op.Call], op.Fault)
				s.mu.Unlock()
				break // faults are injected into the first cache's store only
			}
		}
	default:
		tr.Skipped++
	}
}

// drain: release everything parked, answer everything pending (uncacheable),
// until nothing moves any more
func (w *world) drain(m *model, tr *trace) {
	idx := len(tr.Scenario.Ops)
	for round := 0; round < 10000; round++ {
		w.mu.Lock()
		parked := w.parkedClients()
		pend := w.pendingUps()
		w.mu.Unlock()
		if len(parked) > 0 {
			w.execOp(idx, Op{K: "release", Pick: 0}, m, tr)
			continue
		}
		if len(pend) > 0 {
			w.execOp(idx, Op{K: "complete", Pick: 0, Out: &Outcome{Kind: "uncacheable", Why: "no-store"}}, m, tr)
			continue
		}
		break
	}
	synctest.Wait()
	m.finish(w.snapshot(idx))
}

// sortedKeys helper for deterministic iteration
func sortedInts(m map[int]string) []int {
	res := make([]int, 0, len(m))
	for k := range m {
		res = append(res, k)
	}
	sort.Ints(res)
	return res
}
