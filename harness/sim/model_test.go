//go:build verif && go1.25

package sim

// The per-key specification automaton (DESIGN.md section 5), stepped after every
// interpreted op at a quiescent point.  It is written from the property
// statements, with explicit tolerance for the one-second clock granularity:
// whatever the statements leave open is accepted either way and followed.

import (
	"fmt"
	"net/http"
	"os"
	"strconv"
	"strings"

	"verif/harness/internal/vstat"
)

type gen struct {
	id        int
	cache     int
	key       int
	state     string // unknown | fetching | hit | hfp | amb | wild
	reason    string // why unknown: never | expired | purged | evicted | lapsed
	fetcher   int
	fetchUp   int
	waiters   []int // registered waiters not yet woken, arrival order
	ended     bool
	cacheable bool
	t0        int64 // ms: when the fetch ended
	L         int   // effective lifetime (s)
	T         int   // upstream lifetime
	upAge     *int
	D         int // hit-for-pass seconds
	serial    int
	status    int
	bodyLen   int
	detached  bool
	wasWild   bool
	stored    *storedRec // what the store may still hold for this key (carried across generations)
	ambClient int
	ambStrict bool // the ambiguity arose well inside the period with the marker in a reliable store: only a pass is right
}

// storedRec: the record written when a fetch ended (response or hit-for-pass marker)
type storedRec struct {
	hfp     bool
	t0      int64
	L, T, D int
	upAge   *int
	serial  int
	status  int
	bodyLen int
}

type role struct {
	kind    string // fetcher | waiter | woken | pass | hit | free
	g       *gen
	serial  int
	checked bool
	// result of the fetch a woken waiter waited for (the generation's fields move on with later epochs)
	fCacheable bool
	fSerial    int
	fBodyLen   int
	fStatus    int
	fT         int   // lifetime of the fetched response
	fT0        int64 // ms: when that fetch ended
	fNoUpAge   bool  // the upstream sent no Age of its own
}

var traceOn = os.Getenv("VERIF_TRACE") != ""

type model struct {
	ageSeen map[int][2]int64 // serial of a stored response -> (time ms, Age) of the latest hit on it
	prop         string
	out          *vstat.Outcome
	w            *world
	sc           Scenario
	cur          map[[2]int]*gen
	roles        map[int]*role
	gens         []*gen
	fatalErr     bool
	faultQ       map[string][]string
	evSeen       int
	upsSeen      map[int]bool
	stats        modelStats
	hfpD         int
	strictHFP    bool // C07 with a reliable store: a marker dropped from memory inside the period must come back from the store
	brokenSerial map[int]bool // upstream exchanges whose body was a deliberately broken gzip stream
	storeSeen    int
	passive      bool // only record the trace (C03 has its own oracle)
}

type modelStats struct {
	Reqs, Hits, Fetches, Waiters, Passes, Purges, Evictions               int
	Epochs                                                                int
	ParkedRegisteredAcrossEnd, ParkedWokenAcrossExpiry                    int
	BoundaryCases, FailedFetches, WaitersOfFailed, Timeouts               int
	HFPBursts, HFPProbes, ReloadHits, ReloadRefetch, FaultsHit            int
	PurgeDuringFetch, PurgeOfFresh, RequestAfterPurge                     int
	ExpiredRefetch, MaxOverlap, StaleBoundary, Aborted, AmbiguousResolved, WaiterAgeChecked, MarkerReloads, ParkedAtEnter, EnterOrphaned int
	WildGens                                                              int
}

func newModel(prop string, out *vstat.Outcome) *model {
	return &model{prop: prop, out: out, cur: map[[2]int]*gen{}, roles: map[int]*role{}, faultQ: map[string][]string{}, upsSeen: map[int]bool{}}
}

func (m *model) fatal() bool { return m.fatalErr }

func (m *model) viol(property, oracle, format string, args ...interface{}) {
	m.out.Violate(property, oracle, format, args...)
	if len(m.out.Violations) > 20 {
		m.fatalErr = true
	}
}

func (m *model) begin(w *world, sc Scenario) {
	m.w, m.sc = w, sc
	m.hfpD = sc.Cfg.HFP
	m.strictHFP = m.prop == "C07" && sc.Cfg.Store == "mem"
	if m.hfpD <= 0 {
		m.hfpD = 300
	}
}

func isCacheableMethod(method string) bool {
	return method == http.MethodGet || method == http.MethodHead
}

func (m *model) keyOf(c *clientRec) Key { return m.sc.Keys[c.Key] }

func (m *model) gensOf(cacheIdx, key int) *gen {
	g := m.cur[[2]int{cacheIdx, key}]
	if g == nil {
		g = &gen{id: len(m.gens), cache: cacheIdx, key: key, state: "unknown", reason: "never", fetcher: -1, ambClient: -1}
		m.gens = append(m.gens, g)
		m.cur[[2]int{cacheIdx, key}] = g
	}
	return g
}

func (m *model) detach(cacheIdx, key int, reason string) {
	g := m.cur[[2]int{cacheIdx, key}]
	if g == nil {
		return
	}
	g.detached = true
	ng := &gen{id: len(m.gens), cache: cacheIdx, key: key, state: "unknown", reason: reason, fetcher: -1, ambClient: -1}
	if m.sc.Cfg.Store != "" && (g.state == "wild" || g.wasWild || g.state == "amb") {
		// what a generation without a model left (or, with a pass-or-probe request still in
		// flight, will leave) in the store is unknown: stay permissive
		ng.state, ng.wasWild = "wild", true
	}
	if reason == "evicted" && m.sc.Cfg.Store == "fault" {
		// which of the earlier writes reached a faulty store is not modelled: the
		// re-created entry is only required to complete correctly
		ng.state, ng.wasWild = "wild", true
	}
	if reason == "evicted" && m.sc.Cfg.Store != "" {
		ng.stored = g.stored
	}
	if reason == "purged" && m.sc.Cfg.Store == "fault" {
		// a failed delete may leave the record behind
		ng.stored = g.stored
	}
	m.gens = append(m.gens, ng)
	m.cur[[2]int{cacheIdx, key}] = ng
}

func secs(ms int64) float64 { return float64(ms) / 1000 }

// effective cacheability of a structured outcome for a method
func outcomeLifetime(method string, o *Outcome) (cacheable bool, L int) {
	if o == nil || o.Kind != "cacheable" || !isCacheableMethod(method) {
		return false, 0
	}
	L = o.T
	if o.Age != nil {
		L -= *o.Age
	}
	return L > 0, L
}

func (m *model) processEvictions() {
	m.w.mu.Lock()
	evs := append([]evictEv{}, m.w.evictions[m.evSeen:]...)
	m.evSeen = len(m.w.evictions)
	m.w.mu.Unlock()
	for _, ev := range evs {
		for ki, k := range m.sc.Keys {
			if string(keyBytes(k)) == ev.Key {
				g := m.cur[[2]int{ev.Cache, ki}]
				if g != nil && !g.detached {
					m.stats.Evictions++
					m.detach(ev.Cache, ki, "evicted")
				}
			}
		}
	}
}

// step is called at the quiescent point after an op
func (m *model) step(opIdx int, kind string, subject interface{}, snap snapshot) {
	if m.fatalErr || m.passive {
		return
	}
	if traceOn {
		defer func() {
			desc := ""
			switch v := subject.(type) {
			case *clientRec:
				desc = fmt.Sprintf("client %d key %d srv %d code %d x=%q serial %d ups %v", v.ID, v.Key, v.Srv, v.Code, v.XStatus, v.Serial, v.Ups)
			case *upReq:
				desc = fmt.Sprintf("up #%d client %d end=%s", v.Serial, v.Client, v.EndKind)
			}
			states := ""
			for _, id := range sortedInts(snap.State) {
				if snap.State[id] != "done" {
					states += fmt.Sprintf(" %d:%s", id, snap.State[id])
				}
			}
			gs := ""
			for k, g := range m.cur {
				gs += fmt.Sprintf(" [c%d k%d %s t0=%d L=%d D=%d ser=%d stored=%v]", k[0], k[1], g.state, g.t0, g.L, g.D, g.serial, g.stored)
			}
			fmt.Printf("TRACE op %d t=%d %s %s | active:%s | gens:%s | viol=%d\n", opIdx, snap.Ms, kind, desc, states, gs, len(m.out.Violations))
		}()
	}
	switch {
	case kind == "req":
		c := subject.(*clientRec)
		m.processEvictionsExceptNewKey(c)
		m.onReq(opIdx, c, snap)
	case kind == "complete":
		m.onUpstreamEnd(opIdx, subject.(*upReq), snap)
	case kind == "advance":
		// proxy timeouts that fired
		m.w.mu.Lock()
		var ended []*upReq
		for _, u := range m.w.ups {
			if u.Ended && u.EndKind == "timeout" && !m.upsSeen[u.Serial] {
				ended = append(ended, u)
			}
		}
		m.w.mu.Unlock()
		for _, u := range ended {
			m.stats.Timeouts++
			m.onUpstreamEnd(opIdx, u, snap)
		}
	case strings.HasPrefix(kind, "release:"):
		m.onRelease(opIdx, subject.(*clientRec), strings.TrimPrefix(kind, "release:"), snap)
	}
	m.processEvictions()
	m.checkDone(snap)
	m.countOverlap(snap)
}

// An eviction caused by this very request's insertion concerns *other* keys;
// evictions are otherwise processed after each step.
func (m *model) processEvictionsExceptNewKey(c *clientRec) { m.processEvictions() }

func (m *model) countOverlap(snap snapshot) {
	per := map[*gen]int{}
	for id, st := range snap.State {
		r := m.roles[id]
		if r != nil && r.g != nil && (st == "blocked" || strings.HasPrefix(st, "parked")) && r.kind == "waiter" {
			per[r.g]++
		}
	}
	for _, n := range per {
		if n+1 > m.stats.MaxOverlap {
			m.stats.MaxOverlap = n + 1
		}
	}
}

func (m *model) storeOf(cacheIdx int) *memStore { return m.w.stores[cacheIdx] }

func (m *model) onReq(opIdx int, c *clientRec, snap snapshot) {
	if c.Invalid {
		m.roles[c.ID] = &role{kind: "done"}
		return
	}
	m.stats.Reqs++
	k := m.keyOf(c)
	st := snap.State[c.ID]
	if !isCacheableMethod(k.Method) {
		m.roles[c.ID] = &role{kind: "pass"}
		m.stats.Passes++
		if st != "pending" {
			m.viol("C03", "non-get-forwarded", "op %d: %s request %d was not forwarded to the upstream at once (state %s)", opIdx, k.Method, c.ID, st)
		}
		return
	}
	g := m.gensOf(c.Cache, c.Key)
	now := snap.Ms
	if st == "parked:get.enter" {
		// the request holds the key's entry and has not looked at it yet: it is judged when it goes on
		m.roles[c.ID] = &role{kind: "entering", g: g}
		m.stats.ParkedAtEnter++
		return
	}
	missNow := false
	// the fault (if any) the store applied to the lookup made for this request
	// is read from the fault store's own call log (first cache only)
	if m.sc.Cfg.Store == "fault" && c.Cache == 0 {
		if f, called := m.storeFault("get", string(keyBytes(k))); called && f != "" {
			m.stats.FaultsHit++
			switch {
			case f == "notfound" || f == "error" || strings.HasPrefix(f, "trunc:") || strings.HasPrefix(f, "badfilter:"):
				missNow = true // a bad or missing record is a miss (the store itself may still hold the record)
			default:
				g.state, g.wasWild = "wild", true
				m.stats.WildGens++
			}
		}
	}
	switch g.state {
	case "wild":
		m.roles[c.ID] = &role{kind: "free", g: g}
	case "unknown":
		if g.stored != nil && !missNow && (g.reason == "evicted" || g.reason == "purged") {
			m.onReqMaybeStored(opIdx, c, g, st, now)
			return
		}
		if g.reason == "purged" {
			m.stats.RequestAfterPurge++
		}
		switch st {
		case "pending":
			m.becomeFetcher(g, c)
		case "blocked", "parked:get.registered":
			m.viol("C02", "stuck-key", "op %d: request %d on a key in unknown state (%s) neither was served nor reached the upstream (state %s)", opIdx, c.ID, g.reason, st)
			m.roles[c.ID] = &role{kind: "free", g: g}
			g.state = "wild"
		default:
			p := "C01"
			switch g.reason {
			case "purged":
				p = "C18"
			case "expired":
				p = "C04"
			case "lapsed":
				p = "C07"
			}
			m.viol(p, "unexplained-answer", "op %d: request %d on a key in unknown state (%s) was answered without an upstream fetch (state %s, X-Status %q, serial %d)", opIdx, c.ID, g.reason, st, c.XStatus, c.Serial)
			m.roles[c.ID] = &role{kind: "free", g: g}
			g.state = "wild"
		}
	case "fetching":
		switch st {
		case "blocked", "parked:get.registered":
			g.waiters = append(g.waiters, c.ID)
			m.roles[c.ID] = &role{kind: "waiter", g: g}
			m.stats.Waiters++
		case "pending":
			if g.reason == "lapsed" {
				m.viol("C07", "several-probes", "op %d: after the hit-for-pass period lapsed request %d probes the upstream while request %d is already probing (the key must be probed by a single request)", opIdx, c.ID, g.fetcher)
			}
			m.viol("C01", "second-fetch", "op %d: request %d reached the upstream while request %d is already fetching the same key", opIdx, c.ID, g.fetcher)
			m.roles[c.ID] = &role{kind: "free", g: g}
		default:
			m.viol("C01", "answered-during-fetch", "op %d: request %d was answered (X-Status %q, serial %d) while the fetch by request %d is still in flight", opIdx, c.ID, c.XStatus, c.Serial, g.fetcher)
			m.roles[c.ID] = &role{kind: "free", g: g}
		}
	case "hit":
		e := secs(now - g.t0)
		switch {
		case e < float64(g.L):
			if st == "done" {
				m.roles[c.ID] = &role{kind: "hit", g: g, serial: g.serial}
				m.stats.Hits++
				m.checkHit(opIdx, c, g, e)
			} else {
				p, o := "C01", "fresh-not-served"
				if st == "blocked" {
					p, o = "C02", "blocked-on-fresh"
				} else if g.reason == "lapsed" {
					m.viol("C07", "not-cacheable-after-probe", "op %d: the probe after the hit-for-pass period got a cacheable answer but request %d, %.3fs later, was not served from cache (state %s)", opIdx, c.ID, e, st)
				}
				m.viol(p, o, "op %d: request %d arrived %.3fs after the fetch (lifetime %ds) but was not served from cache (state %s)", opIdx, c.ID, e, g.L, st)
				m.roles[c.ID] = &role{kind: "free", g: g}
			}
		case e >= float64(g.L+1):
			if st == "pending" {
				m.stats.ExpiredRefetch++
				m.stats.Epochs++
				g.state, g.reason = "unknown", "expired"
				m.becomeFetcher(g, c)
			} else if st == "done" {
				m.viol("C04", "stale-hit", "op %d: request %d was served from cache (X-Status %q, serial %d) %.3fs after the fetch although the lifetime is %ds", opIdx, c.ID, c.XStatus, c.Serial, e, g.L)
				m.roles[c.ID] = &role{kind: "free", g: g}
			} else {
				m.viol("C02", "stuck-key", "op %d: request %d after expiry neither served nor forwarded (state %s)", opIdx, c.ID, st)
				m.roles[c.ID] = &role{kind: "free", g: g}
			}
		default: // the boundary second: either
			m.stats.BoundaryCases++
			if st == "done" {
				m.roles[c.ID] = &role{kind: "hit", g: g, serial: g.serial}
				m.stats.Hits++
				m.stats.StaleBoundary++
				m.checkHit(opIdx, c, g, e)
			} else if st == "pending" {
				m.stats.Epochs++
				g.state, g.reason = "unknown", "expired"
				m.becomeFetcher(g, c)
			} else {
				m.viol("C02", "stuck-key", "op %d: request %d at the expiry boundary neither served nor forwarded (state %s)", opIdx, c.ID, st)
				m.roles[c.ID] = &role{kind: "free", g: g}
			}
		}
	case "hfp":
		e := secs(now - g.t0)
		switch {
		case e < float64(g.D):
			if st == "pending" {
				m.roles[c.ID] = &role{kind: "pass", g: g}
				m.stats.Passes++
			} else if st == "blocked" || strings.HasPrefix(st, "parked") {
				m.viol("C07", "queued-in-hfp", "op %d: request %d arrived %.3fs into a %ds hit-for-pass period but was queued instead of being forwarded (state %s)", opIdx, c.ID, e, g.D, st)
				m.roles[c.ID] = &role{kind: "free", g: g}
			} else {
				m.viol("C07", "answered-in-hfp", "op %d: request %d arrived %.3fs into a %ds hit-for-pass period but was answered without the upstream (X-Status %q)", opIdx, c.ID, e, g.D, c.XStatus)
				m.roles[c.ID] = &role{kind: "free", g: g}
			}
		case e >= float64(g.D+1):
			if st == "pending" {
				m.stats.HFPProbes++
				m.stats.Epochs++
				g.state, g.reason = "unknown", "lapsed"
				m.becomeFetcher(g, c)
			} else {
				m.viol("C07", "no-probe-after-hfp", "op %d: request %d arrived %.3fs after a %ds hit-for-pass period started but did not probe the upstream (state %s)", opIdx, c.ID, e, g.D, st)
				m.roles[c.ID] = &role{kind: "free", g: g}
			}
		default:
			m.stats.BoundaryCases++
			if st == "pending" {
				g.state, g.ambClient, g.ambStrict = "amb", c.ID, false
				m.roles[c.ID] = &role{kind: "free", g: g}
			} else {
				m.viol("C07", "hfp-boundary", "op %d: request %d at the end of the hit-for-pass period neither passed nor probed (state %s)", opIdx, c.ID, st)
				m.roles[c.ID] = &role{kind: "free", g: g}
			}
		}
	case "amb":
		// ambClient is either a pass (period still running) or the probe
		e := secs(now - g.t0)
		switch st {
		case "blocked", "parked:get.registered":
			first := g.ambClient
			if g.ambStrict {
				m.viol("C07", "marker-not-restored", "op %d: request %d is queued behind request %d, which arrived well inside the %ds hit-for-pass period of a key whose marker had left memory but is in the store: the marker was not restored, the key is probed and requests queue", opIdx, c.ID, first, g.D)
				g.ambStrict = false
			}
			g.state, g.reason = "unknown", "lapsed"
			if fc := m.clientByID(first); fc != nil {
				m.becomeFetcher(g, fc)
			}
			g.waiters = append(g.waiters, c.ID)
			m.roles[c.ID] = &role{kind: "waiter", g: g}
			m.stats.Waiters++
			m.stats.AmbiguousResolved++
		case "pending":
			// the earlier one was a pass (else this one would wait for it)
			m.roles[g.ambClient] = &role{kind: "pass", g: g}
			m.stats.AmbiguousResolved++
			if g.ambStrict {
				m.stats.MarkerReloads++
			}
			g.ambStrict = false
			switch {
			case e >= float64(g.D+1):
				m.stats.HFPProbes++
				m.stats.Epochs++
				g.state, g.reason = "unknown", "lapsed"
				m.becomeFetcher(g, c)
			case e < float64(g.D):
				g.state = "hfp"
				m.roles[c.ID] = &role{kind: "pass", g: g}
			default:
				g.ambClient = c.ID
				m.roles[c.ID] = &role{kind: "free", g: g}
			}
		default:
			m.roles[c.ID] = &role{kind: "free", g: g}
		}
	}
}

// hfpOf: the hit-for-pass period of a cache (the second cache may leave it unset: 300 s)
func (m *model) hfpOf(cacheIdx int) int {
	if cacheIdx == 1 && m.sc.Cfg.HFP2Unset && !m.sc.Cfg.SharedCache {
		return 300
	}
	return m.hfpD
}

// orphanParkedRegistered: a request outside the model (it looked the entry up before the entry was
// dropped or purged) is parked between registering and waiting on this generation's key: the
// completer is handing over to it
func (m *model) orphanParkedRegistered(g *gen, snap snapshot) bool {
	m.w.mu.Lock()
	defer m.w.mu.Unlock()
	for _, c := range m.w.clients {
		if r := m.roles[c.ID]; r != nil && r.kind == "free" && c.Cache == g.cache && c.Key == g.key && snap.State[c.ID] == "parked:get.registered" {
			return true
		}
	}
	return false
}

func (m *model) clientByID(id int) *clientRec {
	m.w.mu.Lock()
	defer m.w.mu.Unlock()
	if id < 0 || id >= len(m.w.clients) {
		return nil
	}
	return m.w.clients[id]
}

// a new entry whose previous generation may live on in the store: the
// statement (C08) allows either a reload (served unchanged, within the
// original lifetime, Age continuing) or a refetch.
func (m *model) onReqMaybeStored(opIdx int, c *clientRec, g *gen, st string, now int64) {
	p := g.stored
	g.stored = nil
	switch {
	case st == "done":
		e := secs(now - p.t0)
		if p.hfp {
			m.viol("C08", "reload-unexplained", "op %d: request %d served from cache on a re-created entry although the store can only hold a hit-for-pass marker", opIdx, c.ID)
			m.roles[c.ID] = &role{kind: "free", g: g}
			g.state = "wild"
			return
		}
		if e >= float64(p.L+1) {
			m.viol("C08", "stale-reload", "op %d: request %d was served a reloaded entry %.3fs after the original fetch (lifetime %ds)", opIdx, c.ID, e, p.L)
		}
		// adopt the stored record's parameters
		g.state, g.t0, g.L, g.T, g.upAge, g.serial, g.status, g.bodyLen, g.cacheable, g.ended = "hit", p.t0, p.L, p.T, p.upAge, p.serial, p.status, p.bodyLen, true, true
		g.stored = p
		m.roles[c.ID] = &role{kind: "hit", g: g, serial: g.serial}
		m.stats.Hits++
		m.stats.ReloadHits++
		m.checkHit(opIdx, c, g, e)
	case st == "pending":
		if p.hfp && secs(now-p.t0) < float64(p.D+1) {
			// reloaded marker (pass) or probe: undecided
			g.D, g.t0 = p.D, p.t0
			g.state, g.ambClient = "amb", c.ID
			g.ambStrict = m.strictHFP && secs(now-p.t0) < float64(p.D-1)
			g.stored = p
			m.roles[c.ID] = &role{kind: "free", g: g}
			return
		}
		m.stats.ReloadRefetch++
		m.becomeFetcher(g, c)
	default:
		m.viol("C02", "stuck-key", "op %d: request %d on a re-created entry neither served nor forwarded (state %s)", opIdx, c.ID, st)
		m.roles[c.ID] = &role{kind: "free", g: g}
		g.state = "wild"
	}
}

func (m *model) becomeFetcher(g *gen, c *clientRec) {
	g.state = "fetching"
	g.fetcher = c.ID
	g.waiters = nil
	g.ended = false
	g.fetchUp = -1
	m.w.mu.Lock()
	if len(c.Ups) > 0 {
		g.fetchUp = c.Ups[len(c.Ups)-1]
	}
	m.w.mu.Unlock()
	m.roles[c.ID] = &role{kind: "fetcher", g: g}
	m.stats.Fetches++
}

// nextHandover: the waiters parked at get.registered of one generation whose fetch has ended
func (m *model) nextHandover() []int {
	for _, g := range m.gens {
		if g.ended && len(g.waiters) > 0 {
			var ids []int
			m.w.mu.Lock()
			for _, id := range g.waiters {
				c := m.w.clients[id]
				if c.parkCh != nil && c.parkedAt == "get.registered" {
					ids = append(ids, id)
				}
			}
			m.w.mu.Unlock()
			if len(ids) > 0 {
				return ids
			}
		}
	}
	return nil
}

func (m *model) onUpstreamEnd(opIdx int, u *upReq, snap snapshot) {
	m.upsSeen[u.Serial] = true
	if u.Out != nil && u.Out.Enc == "gzip-broken" {
		if m.brokenSerial == nil {
			m.brokenSerial = map[int]bool{}
		}
		m.brokenSerial[u.Serial] = true
	}
	r := m.roles[u.Client]
	if r == nil {
		return
	}
	c := m.clientByID(u.Client)
	if c == nil {
		return
	}
	k := m.keyOf(c)
	st := snap.State[c.ID]
	switch r.kind {
	case "fetcher":
		g := r.g
		if g.fetchUp != u.Serial {
			return
		}
		g.ended = true
		g.t0 = snap.Ms
		ok, L := false, 0
		if u.EndKind != "timeout" {
			ok, L = outcomeLifetime(k.Method, u.Out)
		}
		if ok {
			g.cacheable = true
			g.L, g.T, g.upAge, g.serial = L, u.Out.T, u.Out.Age, u.Serial
			g.status = u.Out.Status
			if g.status == 0 {
				g.status = 200
			}
			g.bodyLen = u.Out.BodyLen
			g.state = "hit"
			g.stored = &storedRec{t0: g.t0, L: L, T: g.T, upAge: g.upAge, serial: g.serial, status: g.status, bodyLen: g.bodyLen}
		} else {
			g.cacheable = false
			g.D = m.hfpOf(g.cache)
			g.state = "hfp"
			g.stored = &storedRec{hfp: true, t0: g.t0, D: g.D}
			m.stats.FailedFetches++
			m.stats.WaitersOfFailed += len(g.waiters)
		}
		m.propagateStored(g)
		m.wakeWaiters(opIdx, g, snap)
		// the fetcher itself: finished unless it is handing over to a parked waiter
		if st != "done" && !(st == "blocked" && (len(g.waiters) > 0 || m.orphanParkedRegistered(g, snap))) {
			m.viol("C02", "fetcher-not-finished", "op %d: fetching request %d did not finish after its upstream exchange ended (state %s)", opIdx, c.ID, st)
		}
		r.serial = u.Serial
	case "pass", "woken":
		if st != "done" {
			m.viol("C02", "pass-not-finished", "op %d: forwarded request %d did not finish after its upstream exchange ended (state %s)", opIdx, c.ID, st)
		}
		r.serial = u.Serial
	case "free":
		r.serial = u.Serial
		if r.g != nil && r.g.state == "amb" && r.g.ambClient == c.ID {
			m.resolveAmb(r.g, c, u, snap)
		}
	}
}

// resolve a pass-or-probe ambiguity from the finished request's own label
func (m *model) resolveAmb(g *gen, c *clientRec, u *upReq, snap snapshot) {
	m.stats.AmbiguousResolved++
	strict := g.ambStrict
	g.ambStrict = false
	if !c.Done && !c.Aborted {
		g.state = "wild"
		return
	}
	if c.XStatus == "hitForPass" {
		g.state = "hfp"
		if strict {
			m.stats.MarkerReloads++
		}
		return
	}
	if strict && c.XStatus == "fetching" {
		m.viol("C07", "marker-not-restored", "request %d arrived well inside the %ds hit-for-pass period of a key whose marker had left memory but is in the store, and was a probe (X-Status fetching) instead of a pass", c.ID, g.D)
	}
	k := m.keyOf(c)
	ok, L := false, 0
	if u.EndKind != "timeout" {
		ok, L = outcomeLifetime(k.Method, u.Out)
	}
	if c.XStatus == "fetching" || c.Aborted || c.Code >= 500 {
		g.ended, g.t0 = true, snap.Ms
		if ok && c.XStatus == "fetching" {
			g.cacheable, g.L, g.T, g.upAge, g.serial, g.state = true, L, u.Out.T, u.Out.Age, u.Serial, "hit"
			g.status = u.Out.Status
			if g.status == 0 {
				g.status = 200
			}
			g.bodyLen = u.Out.BodyLen
			g.stored = &storedRec{t0: g.t0, L: L, T: g.T, upAge: g.upAge, serial: g.serial, status: g.status, bodyLen: g.bodyLen}
		} else if c.XStatus == "fetching" {
			g.cacheable, g.D, g.state = false, m.hfpOf(g.cache), "hfp"
			g.stored = &storedRec{hfp: true, t0: g.t0, D: g.D}
		} else {
			g.state = "wild"
		}
		m.propagateStored(g)
		return
	}
	g.state = "wild"
}

// a detached entry (purged or evicted while in use) still writes its record under the key
func (m *model) propagateStored(g *gen) {
	if g.detached && m.sc.Cfg.Store != "" {
		if cur := m.cur[[2]int{g.cache, g.key}]; cur != nil && cur != g {
			cur.stored = g.stored
		}
	}
}

// wakeWaiters: the fetch of g has ended; its waiters are released in
// registration order, up to the first one that is still parked between
// registering and waiting (the completer hands over to it when it arrives).
func (m *model) wakeWaiters(opIdx int, g *gen, snap snapshot) {
	for len(g.waiters) > 0 {
		id := g.waiters[0]
		st := snap.State[id]
		if st == "parked:get.registered" {
			m.stats.ParkedRegisteredAcrossEnd++
			return
		}
		g.waiters = g.waiters[1:]
		r := m.roles[id]
		if r == nil {
			continue
		}
		r.kind = "woken"
		r.fCacheable, r.fSerial, r.fBodyLen, r.fStatus = g.cacheable, g.serial, g.bodyLen, g.status
		r.fT, r.fT0, r.fNoUpAge = g.T, g.t0, g.upAge == nil
		if st == "parked:get.woken" {
			continue // judged when released
		}
		m.judgeWoken(opIdx, id, g, st, snap)
	}
}

func (m *model) judgeWoken(opIdx int, id int, g *gen, st string, snap snapshot) {
	c := m.clientByID(id)
	r := m.roles[id]
	if c == nil || r == nil {
		return
	}
	if r.fCacheable {
		switch st {
		case "done":
			r.serial = r.fSerial
			if m.brokenSerial[r.fSerial] {
				// the fetched body was a broken gzip stream: what the waiter receives is not
				// specified, only that it is released without contacting the upstream
				if len(c.Ups) != 0 {
					m.viol("C01", "waiter-refetched", "op %d: request %d waited for the cacheable fetch #%d but contacted the upstream itself", opIdx, id, r.fSerial)
				}
				r.kind = "done"
				return
			}
			if c.Serial != r.fSerial || len(c.Ups) != 0 {
				m.viol("C01", "waiter-not-answered-from-fetch", "op %d: request %d waited for the cacheable fetch #%d but was answered with serial %d after %d upstream contact(s)", opIdx, id, r.fSerial, c.Serial, len(c.Ups))
				r.kind = "free"
			} else {
				r.kind = "hit"
				m.checkBodyOf(opIdx, c, r.fSerial, r.fBodyLen)
				m.checkHeaders(opIdx, c, r.fSerial)
				if c.Code != r.fStatus {
					m.viol("C05", "status", "op %d: waiter %d has status %d, the fetch it waited for answered %d", opIdx, id, c.Code, r.fStatus)
				}
				// C04: the Age of a response handed over by the fetch that just ended (same
				// instant on the virtual clock) is that of a response obtained now
				if r.fNoUpAge && c.EndMs == r.fT0 {
					age := 0
					if c.AgeHdr != "" {
						age, _ = strconv.Atoi(c.AgeHdr)
					}
					if age > r.fT || age > 1 {
						m.viol("C04", "age", "op %d: request %d was answered from the fetch #%d that ended at this very instant but carries Age %q (lifetime %d)", opIdx, id, r.fSerial, c.AgeHdr, r.fT)
					}
					m.stats.WaiterAgeChecked++
				}
			}
		case "pending":
			m.viol("C01", "waiter-refetched", "op %d: request %d waited for the cacheable fetch #%d but contacted the upstream itself", opIdx, id, r.fSerial)
			r.kind = "free"
		default:
			m.viol("C02", "waiter-not-released", "op %d: request %d is still blocked although the fetch it waited for has ended (state %s)", opIdx, id, st)
			r.kind = "free"
		}
		return
	}
	switch st {
	case "pending":
		r.kind = "pass"
		m.stats.Passes++
	case "done":
		// acceptable only as a hit of the key's current (newer) stored response
		cur := m.cur[[2]int{g.cache, g.key}]
		if cur != nil && cur.state == "hit" && c.Serial == cur.serial && len(c.Ups) == 0 {
			r.kind = "hit"
			r.serial = cur.serial
			r.g = cur
		} else {
			m.viol("C02", "waiter-of-failed-fetch", "op %d: request %d waited for a fetch that ended uncacheable/failed but was answered without its own upstream request (X-Status %q, serial %d)", opIdx, id, c.XStatus, c.Serial)
			m.viol("C03", "delivered-without-contact", "op %d: request %d (X-Status %q) was answered with serial %d without an upstream contact although the fetch it waited for did not produce a shareable response", opIdx, id, c.XStatus, c.Serial)
			r.kind = "free"
		}
	default:
		m.viol("C02", "waiter-not-released", "op %d: request %d is still blocked although the fetch it waited for has ended (state %s)", opIdx, id, st)
		r.kind = "free"
	}
}

func (m *model) onRelease(opIdx int, c *clientRec, point string, snap snapshot) {
	r := m.roles[c.ID]
	if r == nil || r.g == nil {
		return
	}
	g := r.g
	st := snap.State[c.ID]
	if point == "get.enter" {
		if r.kind != "entering" {
			return
		}
		if cur := m.cur[[2]int{g.cache, g.key}]; cur != g {
			// the entry it holds was dropped or purged meanwhile: it goes its own way -- and
			// what it may write to a store under the key is not modelled
			r.kind = "free"
			m.stats.EnterOrphaned++
			if m.sc.Cfg.Store != "" {
				ng := m.gensOf(g.cache, g.key)
				if ng.state == "unknown" || ng.state == "hit" || ng.state == "hfp" || ng.state == "amb" {
					ng.state = "wild"
				}
				ng.wasWild = true
			}
			return
		}
		// the same entry is still the key's entry: the request is an arrival of this moment
		m.onReq(opIdx, c, snap)
		return
	}
	if point == "get.registered" {
		if r.kind != "waiter" {
			return
		}
		if !g.ended {
			if st != "blocked" {
				m.viol("C01", "waiter-not-waiting", "op %d: request %d registered as waiter of an unfinished fetch but is in state %s", opIdx, c.ID, st)
			}
			return
		}
		// the completer was waiting for this waiter: hand-over continues
		m.wakeWaiters(opIdx, g, snap)
		if len(g.waiters) == 0 {
			if fst := snap.State[g.fetcher]; fst != "done" {
				m.viol("C02", "fetcher-not-finished", "op %d: fetching request %d did not finish after all its waiters were handed the result (state %s)", opIdx, g.fetcher, fst)
			}
		}
		return
	}
	// get.woken: the waiter resumes after its wake-up
	if r.kind != "woken" {
		return
	}
	cur := m.cur[[2]int{g.cache, g.key}]
	if cur != g || g.state != "hit" || g.serial != r.fSerial {
		// the entry moved on (expired and refetched, purged, evicted) while the waiter was parked
		m.stats.ParkedWokenAcrossExpiry++
	}
	m.judgeWoken(opIdx, c.ID, g, st, snap)
}

func (m *model) purged(opIdx int, op Op, returned bool, snap snapshot) {
	if m.passive {
		return
	}
	m.stats.Purges++
	if !returned {
		m.viol("C18", "purge-blocked", "op %d: purge of key %d did not return at once", opIdx, op.Key)
	}
	key := op.Key % len(m.sc.Keys)
	var targets []int
	switch op.Cache {
	case "c1":
		targets = []int{0}
	case "c2":
		targets = []int{1}
	case "":
		targets = []int{0, 1}
	}
	deleteFault := ""
	if m.sc.Cfg.Store == "fault" {
		if f, called := m.storeFault("delete", string(keyBytes(m.sc.Keys[key]))); called && f != "" {
			deleteFault = f
			m.stats.FaultsHit++
		}
	}
	for _, ci := range targets {
		g := m.cur[[2]int{ci, key}]
		if g != nil {
			switch g.state {
			case "fetching":
				m.stats.PurgeDuringFetch++
			case "hit":
				if secs(snap.Ms-g.t0) < float64(g.L) {
					m.stats.PurgeOfFresh++
				}
			}
		}
		m.detach(ci, key, "purged")
		if ci == 0 && deleteFault == "error" {
			// the record survives a failed delete, and which of the earlier writes it is
			// depends on earlier write faults: the re-created entry is only required to
			// complete with correct bodies
			if ng := m.cur[[2]int{ci, key}]; ng != nil {
				if s := m.storeOf(ci); s != nil && s.has(string(keyBytes(m.sc.Keys[key]))) {
					ng.state, ng.wasWild = "wild", true
				} else {
					ng.stored = nil // nothing can come back from the store: the next request must be a miss
				}
			}
		}
		if s := m.storeOf(ci); s != nil && !(ci == 0 && deleteFault == "error") {
			if s.has(string(keyBytes(m.sc.Keys[key]))) {
				m.viol("C18", "store-copy-left", "op %d: after the purge of key %d the store of cache %d still holds its record", opIdx, key, ci)
			}
			if ng := m.cur[[2]int{ci, key}]; ng != nil {
				ng.stored = nil
			}
		}
	}
	// swallow the removal callbacks of the purge itself
	m.w.mu.Lock()
	m.evSeen = len(m.w.evictions)
	m.w.mu.Unlock()
	m.checkDone(snap)
}

func (m *model) noteFault(op Op) {}

// storeFault scans the first cache's store log for calls made since the last scan
func (m *model) storeFault(call, key string) (fault string, called bool) {
	s := m.w.stores[0]
	if s == nil {
		return "", false
	}
	s.mu.Lock()
	defer s.mu.Unlock()
	for _, sc := range s.calls[m.storeSeen:] {
		if traceOn {
			fmt.Printf("TRACE   store call %+v\n", sc)
		}
		if sc.Call == call && sc.Key == key {
			fault, called = sc.Fault, true
		}
	}
	m.storeSeen = len(s.calls)
	return
}

// checkHit: a response served from cache
func (m *model) checkHit(opIdx int, c *clientRec, g *gen, e float64) {
	if m.brokenSerial[g.serial] {
		if len(c.Ups) != 0 {
			m.viol("C03", "label", "op %d: request %d was expected to be served from the stored entry but contacted the upstream %d time(s)", opIdx, c.ID, len(c.Ups))
		}
		m.roles[c.ID].kind = "done"
		return
	}
	if c.XStatus != "hit" {
		m.viol("C03", "label", "op %d: request %d was answered without an upstream contact but is labelled %q", opIdx, c.ID, c.XStatus)
	}
	if len(c.Ups) != 0 {
		m.viol("C03", "label", "op %d: request %d labelled %q contacted the upstream %d time(s)", opIdx, c.ID, c.XStatus, len(c.Ups))
	}
	if c.Serial != g.serial {
		m.viol("C04", "wrong-version", "op %d: request %d was served serial %d but the key's current stored response is serial %d", opIdx, c.ID, c.Serial, g.serial)
	}
	if c.Code != g.status {
		m.viol("C05", "status", "op %d: hit %d has status %d, the stored response had %d", opIdx, c.ID, c.Code, g.status)
	}
	if g.upAge == nil {
		age := 0
		if c.AgeHdr != "" {
			v, err := strconv.Atoi(c.AgeHdr)
			if err != nil {
				m.viol("C04", "age", "op %d: hit %d has Age %q", opIdx, c.ID, c.AgeHdr)
			}
			age = v
		}
		if age > g.T {
			m.viol("C04", "age", "op %d: hit %d has Age %d > lifetime %d", opIdx, c.ID, age, g.T)
		}
		if float64(age) > e+1 || float64(age) < e-1 {
			m.viol("C04", "age", "op %d: hit %d has Age %d but %.3fs passed since the fetch", opIdx, c.ID, age, e)
		}
	}
	// the Age of one stored response keeps counting from the original fetch: between two hits on
	// the same stored response it advances by the time that passed (whole seconds), wherever the
	// entry lived in between (memory, the store after an eviction, a re-created cache)
	// (in the first second after the fetch pike sets no Age of its own and an Age header the upstream
	// sent shows through; the statement leaves the Age of such responses open, so only hits from the
	// second second on are compared)
	if age, err := strconv.Atoi(c.AgeHdr); e >= 1 && (c.AgeHdr == "" || err == nil) {
		if m.ageSeen == nil {
			m.ageSeen = map[int][2]int64{}
		}
		if prev, ok := m.ageSeen[c.Serial]; ok && c.Serial > 0 {
			dt := float64(c.EndMs-prev[0]) / 1000
			da := float64(int64(age) - prev[1])
			if da > dt+1 || da < dt-1 {
				m.viol("C08", "age-continuity", "op %d: hit %d on the stored response #%d has Age %d; %.3fs earlier a hit on the same stored response had Age %d", opIdx, c.ID, c.Serial, age, dt, prev[1])
			}
		}
		m.ageSeen[c.Serial] = [2]int64{c.EndMs, int64(age)}
	}
	m.checkBody(opIdx, c, g)
	m.checkHeaders(opIdx, c, g.serial)
	m.roles[c.ID].checked = true
}

// checkHeaders: the end-to-end headers the upstream sent for that exchange must arrive unaltered
func (m *model) checkHeaders(opIdx int, c *clientRec, serial int) {
	if serial <= 0 || m.brokenSerial[serial] {
		return
	}
	m.w.mu.Lock()
	var sent http.Header
	if serial <= len(m.w.ups) {
		sent = m.w.ups[serial-1].Sent
	}
	m.w.mu.Unlock()
	for name, vals := range sent {
		switch name {
		case "Content-Encoding", "Content-Length", "Age", "Connection", "Date":
			continue
		}
		got := c.Header.Values(name)
		same := len(got) == len(vals)
		for i := 0; same && i < len(vals); i++ {
			same = got[i] == vals[i]
		}
		if !same {
			m.viol("C05", "headers", "op %d: request %d received header %s=%q, the upstream sent %q (exchange #%d)", opIdx, c.ID, name, got, vals, serial)
			return
		}
	}
}

func (m *model) checkBody(opIdx int, c *clientRec, g *gen) {
	m.checkBodyOf(opIdx, c, g.serial, g.bodyLen)
}

func (m *model) checkBodyOf(opIdx int, c *clientRec, serial, bodyLen int) {
	k := m.keyOf(c)
	if k.Method == http.MethodHead || m.brokenSerial[serial] {
		return
	}
	want := echoLine(k.Method, k.Host, k.URI, serial) + "\n" + string(filler(bodyLen, serial))
	if c.DecodeErr != "" {
		m.viol("C05", "decode", "op %d: response of request %d does not decode: %s", opIdx, c.ID, c.DecodeErr)
	} else if string(c.Body) != want {
		m.viol("C05", "body", "op %d: request %d got a %d-byte body that differs from the %d-byte body the upstream sent for serial %d", opIdx, c.ID, len(c.Body), len(want), serial)
	}
}

// checkDone: generic checks on every finished client (once)
func (m *model) checkDone(snap snapshot) {
	m.w.mu.Lock()
	clients := append([]*clientRec{}, m.w.clients...)
	m.w.mu.Unlock()
	for _, c := range clients {
		r := m.roles[c.ID]
		if r == nil || !c.Done || r.kind == "done" {
			continue
		}
		if snap.State[c.ID] != "done" {
			continue
		}
		k := m.keyOf(c)
		kind := r.kind
		g := r.g
		r.kind = "done"
		if c.Aborted {
			m.stats.Aborted++
			// an aborted exchange is only acceptable when the upstream body broke
			legit := false
			m.w.mu.Lock()
			for _, s := range c.Ups {
				u := m.w.ups[s-1]
				if u.Out != nil && u.Out.Kind == "body_abort" {
					legit = true
				}
			}
			m.w.mu.Unlock()
			if !legit {
				m.viol("C02", "panic", "request %d was aborted by a panic (%s) although no upstream body failed", c.ID, c.PanicVal)
			}
			continue
		}
		if m.anyBroken(c) || m.brokenSerial[r.serial] || m.brokenSerial[r.fSerial] || (g != nil && m.brokenSerial[g.serial]) {
			continue // what a client gets for a deliberately broken upstream stream is not specified; only that it finishes
		}
		if c.DecodeErr != "" && m.anyBrokenSoFar() {
			// an undecodable body while broken streams are around: which exchange it stems from cannot be told from the body
			continue
		}
		// C06: whatever was delivered must echo the client's own triple
		if c.Echo != "" {
			prefix := k.Method + " " + k.Host + " " + k.URI + " #"
			if !strings.HasPrefix(c.Echo, prefix) {
				m.viol("C06", "foreign-response", "request %d for %q received a response produced for %q", c.ID, prefix, c.Echo)
			}
		}
		// C03: truthful label
		if c.XStatus == "hit" && len(c.Ups) != 0 {
			m.viol("C03", "label", "request %d is labelled hit but contacted the upstream %d time(s)", c.ID, len(c.Ups))
		}
		if c.Code > 0 && c.Code < 500 && c.XStatus != "hit" && len(c.Ups) != 1 && kind != "free" {
			m.viol("C03", "label", "request %d got status %d labelled %q after %d upstream contact(s)", c.ID, c.Code, c.XStatus, len(c.Ups))
		}
		if c.DecodeErr != "" && !m.brokenSerial[c.Serial] && !m.anyBroken(c) {
			m.viol("C05", "decode", "response of request %d does not decode: %s", c.ID, c.DecodeErr)
		}
		if m.anyBroken(c) || m.brokenSerial[c.Serial] {
			continue // what a client gets for a broken upstream stream is not specified; only that it finishes
		}
		switch kind {
		case "fetcher", "pass", "woken":
			// must carry the answer of its own upstream exchange
			m.w.mu.Lock()
			var u *upReq
			if len(c.Ups) > 0 {
				u = m.w.ups[c.Ups[len(c.Ups)-1]-1]
			}
			m.w.mu.Unlock()
			if u == nil || u.Out == nil {
				continue
			}
			switch u.Out.Kind {
			case "cacheable", "uncacheable", "raw":
				want := u.Out.Status
				if want == 0 {
					want = 200
				}
				if c.Code != want {
					m.viol("C05", "status", "request %d got status %d, its upstream exchange #%d answered %d", c.ID, c.Code, u.Serial, want)
				}
				if c.Serial != u.Serial {
					m.viol("C06", "foreign-response", "request %d got serial %d, its own upstream exchange was #%d", c.ID, c.Serial, u.Serial)
				}
				m.checkHeaders(-1, c, u.Serial)
				if k.Method != http.MethodHead && c.DecodeErr == "" {
					wantBody := echoLine(k.Method, k.Host, k.URI, u.Serial) + "\n" + string(filler(u.Out.BodyLen, u.Serial))
					if string(c.Body) != wantBody {
						m.viol("C05", "body", "request %d got a %d-byte body that differs from the %d-byte body of its upstream exchange #%d", c.ID, len(c.Body), len(wantBody), u.Serial)
					}
				}
				if !isCacheableMethod(k.Method) && c.XStatus != "passed" {
					m.viol("C03", "label", "%s request %d is labelled %q", k.Method, c.ID, c.XStatus)
				}
				if kind == "pass" && g != nil && c.XStatus == "hit" {
					m.viol("C07", "label", "request %d was forwarded during hit-for-pass but is labelled hit", c.ID)
				}
			default:
				// a failed exchange: the statements do not fix the status code, only that the request ends
				if c.Code < 400 {
					m.viol("C02", "error-status", "request %d got status %d although its upstream exchange ended with %s", c.ID, c.Code, u.EndKind)
				}
			}
		}
	}
}

func (m *model) anyBrokenSoFar() bool { return len(m.brokenSerial) > 0 }

func (m *model) anyBroken(c *clientRec) bool {
	m.w.mu.Lock()
	defer m.w.mu.Unlock()
	for _, sn := range c.Ups {
		if u := m.w.ups[sn-1]; u.Out != nil && u.Out.Enc == "gzip-broken" {
			return true
		}
	}
	return false
}

func (m *model) finish(snap snapshot) {
	if m.passive {
		return
	}
	m.checkDone(snap)
	for id, st := range snap.State {
		if st != "done" {
			m.viol("C02", "never-finished", "request %d never finished (state %s after everything was answered and released)", id, st)
		}
	}
}

func (m *model) describe() string {
	return fmt.Sprintf("%+v", m.stats)
}
