//go:build verif

package proc

// C16 — live reconfiguration equals a fresh start and disturbs nothing unchanged.
// Differential: a live-updated pike process vs a process freshly started with
// the final configuration, probed with the same battery against the same
// harness upstreams.

import (
	"fmt"
	"net/http"
	"os"
	"sort"
	"strings"
	"sync"
	"testing"
	"time"

	"github.com/vicanso/pike/config"
	"pgregory.net/rapid"

	"verif/harness/internal/vstat"
)

type aCompress struct {
	Name string `json:"name"`
	Gzip int    `json:"gzip"`
	Br   int    `json:"br"`
}
type aUpstream struct {
	Name    string `json:"name"`
	Servers []int  `json:"servers"`
	Policy  string `json:"policy,omitempty"`
	AE      string `json:"ae,omitempty"`
}
type aLocation struct {
	Name     string   `json:"name"`
	Upstream string   `json:"upstream"`
	Hosts    []string `json:"hosts,omitempty"`
	Prefixes []string `json:"prefixes,omitempty"`
	Rewrite  bool     `json:"rewrite,omitempty"`
	ReqH     []string `json:"reqH,omitempty"`
	RespH    []string `json:"respH,omitempty"`
	Query    []string `json:"query,omitempty"`
}
type aServer struct {
	Slot      int      `json:"slot"`
	Locations []string `json:"locations"`
	Cache     string   `json:"cache"`
	Compress  string   `json:"compress,omitempty"`
	MinLength string   `json:"minLength,omitempty"`
	Filter    string   `json:"filter,omitempty"`
}
type aConfig struct {
	Compresses []aCompress `json:"compresses,omitempty"`
	Caches     []string    `json:"caches"`
	Upstreams  []aUpstream `json:"upstreams"`
	Locations  []aLocation `json:"locations"`
	Servers    []aServer   `json:"servers"`
}

type c16Scenario struct {
	Configs []aConfig `json:"configs"`
	// Store: every cache is small (8 entries) and persists into one shared badger directory
	// (caches with the same store url share one store instance)
	Store bool `json:"store,omitempty"`
	// DetourMs > 0: after the last configuration has been applied, a detour configuration (the
	// final one with another compress threshold on every server and an extra upstream whose
	// health check is slow) is saved and, DetourMs later and without waiting for anything,
	// the final configuration again
	DetourMs int `json:"detourMs,omitempty"`
	// CacheSize: size of every memory-only cache (0 = 1000); also sizes that the shards do not divide evenly
	CacheSize int `json:"cacheSize,omitempty"`
}

func subsetOf(t *rapid.T, label string, pool []string, min int) []string {
	var res []string
	for _, p := range pool {
		if rapid.Bool().Draw(t, label) {
			res = append(res, p)
		}
	}
	if len(res) < min {
		res = append(res, pool[rapid.IntRange(0, len(pool)-1).Draw(t, label+"Pick")])
	}
	return res
}

func genACompress(t *rapid.T, name string) aCompress {
	// 0: the optional level is not set (the library default applies)
	return aCompress{Name: name, Gzip: rapid.SampledFrom([]int{0, 1, 6, 9}).Draw(t, "gzipLevel"), Br: rapid.SampledFrom([]int{0, 1, 5, 11}).Draw(t, "brLevel")}
}

func genAUpstream(t *rapid.T, name string) aUpstream {
	u := aUpstream{Name: name, Policy: rapid.SampledFrom([]string{"", "first", "roundRobin"}).Draw(t, "policy"), AE: rapid.SampledFrom([]string{"", "", "gzip"}).Draw(t, "upAE")}
	// a single server per upstream keeps routing observable deterministically
	u.Servers = []int{rapid.IntRange(0, 2).Draw(t, "upServer")}
	return u
}

func genALocation(t *rapid.T, name string, ups []aUpstream) aLocation {
	l := aLocation{Name: name, Upstream: ups[rapid.IntRange(0, len(ups)-1).Draw(t, "locUp")].Name}
	l.Hosts = subsetOf(t, "host", []string{"h1.test", "h2.test"}, 0)
	l.Prefixes = subsetOf(t, "prefix", []string{"/p1", "/p2"}, 0)
	l.Rewrite = rapid.IntRange(0, 3).Draw(t, "rewrite") == 0
	l.ReqH = subsetOf(t, "reqH", []string{"X-Add-1:a", "X-Add-2:b"}, 0)
	l.RespH = subsetOf(t, "respH", []string{"X-Resp-1:r1", "X-Resp-2:r2"}, 0)
	l.Query = subsetOf(t, "query", []string{"added:1"}, 0)
	return l
}

func genAServer(t *rapid.T, slot int, c *aConfig) aServer {
	s := aServer{Slot: slot, Cache: c.Caches[rapid.IntRange(0, len(c.Caches)-1).Draw(t, "srvCache")]}
	var names []string
	for _, l := range c.Locations {
		names = append(names, l.Name)
	}
	s.Locations = subsetOf(t, "srvLoc", names, 1)
	if len(c.Compresses) > 0 && rapid.Bool().Draw(t, "hasCompress") {
		s.Compress = c.Compresses[rapid.IntRange(0, len(c.Compresses)-1).Draw(t, "srvCompress")].Name
	}
	s.MinLength = rapid.SampledFrom([]string{"", "", "100", "1kb", "4kb"}).Draw(t, "minLength")
	s.Filter = rapid.SampledFrom([]string{"", "", "json|text", "image"}).Draw(t, "filter")
	return s
}

func genAConfig(t *rapid.T) aConfig {
	c := aConfig{}
	for _, n := range subsetOf(t, "compress", []string{"cpA", "cpB", "bestCompression"}, 0) {
		c.Compresses = append(c.Compresses, genACompress(t, n))
	}
	c.Caches = subsetOf(t, "cache", []string{"cA", "cB"}, 1)
	for _, n := range subsetOf(t, "upstream", []string{"upA", "upB"}, 1) {
		c.Upstreams = append(c.Upstreams, genAUpstream(t, n))
	}
	for _, n := range subsetOf(t, "location", []string{"locA", "locB", "locC"}, 1) {
		c.Locations = append(c.Locations, genALocation(t, n, c.Upstreams))
	}
	for _, slot := range []int{0, 1, 2, 3, 4} {
		if slot == 0 || rapid.IntRange(0, 2).Draw(t, "server") == 0 {
			c.Servers = append(c.Servers, genAServer(t, slot, &c))
		}
	}
	return c
}

// repair makes a mutated config closed again (references resolve)
func repair(t *rapid.T, c *aConfig) {
	has := func(names []string, n string) bool {
		for _, x := range names {
			if x == n {
				return true
			}
		}
		return false
	}
	var ups, locs, cps []string
	for _, u := range c.Upstreams {
		ups = append(ups, u.Name)
	}
	for i := range c.Locations {
		if !has(ups, c.Locations[i].Upstream) {
			c.Locations[i].Upstream = ups[0]
		}
		locs = append(locs, c.Locations[i].Name)
	}
	for _, x := range c.Compresses {
		cps = append(cps, x.Name)
	}
	for i := range c.Servers {
		s := &c.Servers[i]
		var keep []string
		for _, l := range s.Locations {
			if has(locs, l) {
				keep = append(keep, l)
			}
		}
		if len(keep) == 0 {
			keep = []string{locs[0]}
		}
		s.Locations = keep
		if !has(c.Caches, s.Cache) {
			s.Cache = c.Caches[0]
		}
		if s.Compress != "" && !has(cps, s.Compress) {
			s.Compress = ""
		}
	}
}

func cloneA(c aConfig) aConfig {
	n := aConfig{Caches: append([]string{}, c.Caches...)}
	n.Compresses = append(n.Compresses, c.Compresses...)
	for _, u := range c.Upstreams {
		u.Servers = append([]int{}, u.Servers...)
		n.Upstreams = append(n.Upstreams, u)
	}
	for _, l := range c.Locations {
		l.Hosts, l.Prefixes, l.ReqH, l.RespH, l.Query = append([]string{}, l.Hosts...), append([]string{}, l.Prefixes...), append([]string{}, l.ReqH...), append([]string{}, l.RespH...), append([]string{}, l.Query...)
		n.Locations = append(n.Locations, l)
	}
	for _, s := range c.Servers {
		s.Locations = append([]string{}, s.Locations...)
		n.Servers = append(n.Servers, s)
	}
	return n
}

func mutateA(t *rapid.T, prev aConfig) aConfig {
	c := cloneA(prev)
	edits := rapid.IntRange(1, 3).Draw(t, "edits")
	for e := 0; e < edits; e++ {
		edit := rapid.IntRange(0, 11).Draw(t, "edit")
		if rapid.Bool().Draw(t, "singleField") {
			// half of the edits change exactly one field of one object
			edit = []int{12, 13, 15}[rapid.IntRange(0, 2).Draw(t, "singleKind")]
		}
		switch edit {
		case 12: // change exactly one field of an upstream, everything else identical
			i := rapid.IntRange(0, len(c.Upstreams)-1).Draw(t, "up")
			switch rapid.IntRange(0, 2).Draw(t, "upField") {
			case 0:
				c.Upstreams[i].AE = rapid.SampledFrom([]string{"", "gzip", "br", "gzip, br"}).Draw(t, "upAE1")
			case 1:
				c.Upstreams[i].Policy = rapid.SampledFrom([]string{"", "first", "roundRobin", "random"}).Draw(t, "policy1")
			default:
				c.Upstreams[i].Servers = []int{rapid.IntRange(0, 2).Draw(t, "upServer1")}
			}
		case 13, 14: // change exactly one field of a location
			i := rapid.IntRange(0, len(c.Locations)-1).Draw(t, "loc1")
			l := &c.Locations[i]
			switch rapid.IntRange(0, 6).Draw(t, "locField") {
			case 0:
				l.Hosts = subsetOf(t, "host1", []string{"h1.test", "h2.test"}, 0)
			case 1:
				l.Prefixes = subsetOf(t, "prefix1", []string{"/p1", "/p2"}, 0)
			case 2:
				l.Rewrite = !l.Rewrite
			case 3:
				l.ReqH = subsetOf(t, "reqH1", []string{"X-Add-1:a", "X-Add-2:b"}, 0)
			case 4:
				l.RespH = subsetOf(t, "respH1", []string{"X-Resp-1:r1", "X-Resp-2:r2"}, 0)
			case 5:
				l.Query = subsetOf(t, "query1", []string{"added:1"}, 0)
			default:
				l.Upstream = c.Upstreams[rapid.IntRange(0, len(c.Upstreams)-1).Draw(t, "locUp1")].Name
			}
		case 15, 16: // change exactly one field of a server
			i := rapid.IntRange(0, len(c.Servers)-1).Draw(t, "srv1")
			sv := &c.Servers[i]
			switch rapid.IntRange(0, 4).Draw(t, "srvField") {
			case 0:
				sv.MinLength = rapid.SampledFrom([]string{"", "100", "1kb", "4kb"}).Draw(t, "minLength1")
			case 1:
				sv.Filter = rapid.SampledFrom([]string{"", "json|text", "image"}).Draw(t, "filter1")
			case 2:
				sv.Compress = ""
				if len(c.Compresses) > 0 && rapid.Bool().Draw(t, "hasCompress1") {
					sv.Compress = c.Compresses[rapid.IntRange(0, len(c.Compresses)-1).Draw(t, "srvCompress1")].Name
				}
			case 3:
				sv.Cache = c.Caches[rapid.IntRange(0, len(c.Caches)-1).Draw(t, "srvCache1")]
			default:
				var names []string
				for _, l := range c.Locations {
					names = append(names, l.Name)
				}
				sv.Locations = subsetOf(t, "srvLoc1", names, 1)
			}
		case 0, 1, 2: // modify a server in place: optional fields set <-> unset
			i := rapid.IntRange(0, len(c.Servers)-1).Draw(t, "srv")
			c.Servers[i] = genAServer(t, c.Servers[i].Slot, &c)
		case 3: // unset every optional field of a server
			i := rapid.IntRange(0, len(c.Servers)-1).Draw(t, "srv")
			c.Servers[i].MinLength, c.Servers[i].Filter, c.Servers[i].Compress = "", "", ""
		case 4: // add or remove a server
			if rapid.IntRange(0, 3).Draw(t, "removeMany") == 0 && len(c.Servers) > 2 {
				// several servers disappear in one update
				keep := rapid.IntRange(1, len(c.Servers)-2).Draw(t, "keepServers")
				c.Servers = c.Servers[:keep]
				break
			}
			slot := rapid.IntRange(1, 4).Draw(t, "slot")
			found := -1
			for i, s := range c.Servers {
				if s.Slot == slot {
					found = i
				}
			}
			if found >= 0 {
				c.Servers = append(c.Servers[:found], c.Servers[found+1:]...)
			} else {
				c.Servers = append(c.Servers, genAServer(t, slot, &c))
			}
		case 5, 6: // modify a location
			i := rapid.IntRange(0, len(c.Locations)-1).Draw(t, "loc")
			c.Locations[i] = genALocation(t, c.Locations[i].Name, c.Upstreams)
		case 7: // add / remove a location
			names := []string{"locA", "locB", "locC"}
			n := names[rapid.IntRange(0, 2).Draw(t, "locName")]
			found := -1
			for i, l := range c.Locations {
				if l.Name == n {
					found = i
				}
			}
			if found >= 0 && len(c.Locations) > 1 {
				c.Locations = append(c.Locations[:found], c.Locations[found+1:]...)
			} else if found < 0 {
				c.Locations = append(c.Locations, genALocation(t, n, c.Upstreams))
			}
		case 8: // modify / add / remove an upstream
			n := []string{"upA", "upB"}[rapid.IntRange(0, 1).Draw(t, "upName")]
			found := -1
			for i, u := range c.Upstreams {
				if u.Name == n {
					found = i
				}
			}
			switch {
			case found >= 0 && len(c.Upstreams) > 1 && rapid.Bool().Draw(t, "rmUp"):
				c.Upstreams = append(c.Upstreams[:found], c.Upstreams[found+1:]...)
			case found >= 0:
				c.Upstreams[found] = genAUpstream(t, n)
			default:
				c.Upstreams = append(c.Upstreams, genAUpstream(t, n))
			}
		case 9, 10: // compress profiles: add / change levels / remove (incl. the bestCompression override)
			n := []string{"cpA", "cpB", "bestCompression"}[rapid.IntRange(0, 2).Draw(t, "cpName")]
			found := -1
			for i, x := range c.Compresses {
				if x.Name == n {
					found = i
				}
			}
			switch {
			case found >= 0 && rapid.Bool().Draw(t, "rmCp"):
				c.Compresses = append(c.Compresses[:found], c.Compresses[found+1:]...)
			case found >= 0:
				c.Compresses[found] = genACompress(t, n)
			default:
				c.Compresses = append(c.Compresses, genACompress(t, n))
			}
		case 11: // add / remove a cache (parameters of a surviving cache never change)
			n := []string{"cA", "cB"}[rapid.IntRange(0, 1).Draw(t, "cacheName")]
			found := -1
			for i, x := range c.Caches {
				if x == n {
					found = i
				}
			}
			if found >= 0 && len(c.Caches) > 1 {
				c.Caches = append(c.Caches[:found], c.Caches[found+1:]...)
			} else if found < 0 {
				c.Caches = append(c.Caches, n)
			}
		}
	}
	repair(t, &c)
	return c
}

func genC16(t *rapid.T) c16Scenario {
	sc := c16Scenario{Store: rapid.IntRange(0, 9).Draw(t, "store") < 4}
	sc.CacheSize = rapid.SampledFrom([]int{0, 0, 1001, 5000, 1023, 4100}).Draw(t, "cacheSize") // large enough for the probes of a case not to evict the retained entry
	if rapid.IntRange(0, 9).Draw(t, "detour") < 4 {
		sc.DetourMs = rapid.SampledFrom([]int{1, 20, 60, 100, 120, 150, 180, 220, 300}).Draw(t, "detourMs")
	}
	n := rapid.IntRange(2, 6).Draw(t, "nConfigs")
	cur := genAConfig(t)
	sc.Configs = append(sc.Configs, cur)
	for i := 1; i < n; i++ {
		if rapid.IntRange(0, 9).Draw(t, "fresh") < 2 {
			cur = genAConfig(t)
		} else {
			cur = mutateA(t, cur)
		}
		sc.Configs = append(sc.Configs, cur)
	}
	if !sc.Store && rapid.IntRange(0, 5).Draw(t, "recreate") == 0 {
		// a cache is removed (its servers move to another cache for one configuration) and created
		// again under its old name: it must come back as empty as a fresh start has it
		base := sc.Configs[0]
		if len(base.Servers) > 0 {
			x := base.Servers[rapid.IntRange(0, len(base.Servers)-1).Draw(t, "recreateOf")].Cache
			mid := cloneA(base)
			for i := range mid.Caches {
				if mid.Caches[i] == x {
					mid.Caches[i] = "cMoved"
				}
			}
			for i := range mid.Servers {
				if mid.Servers[i].Cache == x {
					mid.Servers[i].Cache = "cMoved"
				}
			}
			sc.Configs = []aConfig{base, mid, cloneA(base)}
			sc.DetourMs = 0
			return sc
		}
	}
	if rapid.IntRange(0, 9).Draw(t, "endEmpty") < 2 {
		// a last configuration that keeps everything but lists no server any more
		last := cloneA(cur)
		last.Servers = nil
		sc.Configs = append(sc.Configs, last)
		sc.DetourMs = 0
	}
	return sc
}

var (
	c16SlowOnce sync.Once
	c16Slow     *echoUpstream
	c16Once     sync.Once
	c16Ups      []*echoUpstream
	emptyChecks int // configurations ending without any server: checked a bounded number of times per process
	graceChecks int // the 10 s close grace of removed servers is waited for a bounded number of times per process
)

// c16CacheSize: the cache size of the scenario being executed (one scenario at a time per process)
var c16CacheSize int

func toPikeConfig(a aConfig, ports []int, storeDir string) *config.PikeConfig {
	c := &config.PikeConfig{}
	for _, x := range a.Compresses {
		levels := map[string]uint{}
		if x.Gzip > 0 {
			levels["gzip"] = uint(x.Gzip)
		}
		if x.Br > 0 {
			levels["br"] = uint(x.Br)
		}
		c.Compresses = append(c.Compresses, config.CompressConfig{Name: x.Name, Levels: levels})
	}
	for _, n := range a.Caches {
		cc := config.CacheConfig{Name: n, Size: 1000, HitForPass: "5m"}
		if c16CacheSize > 0 {
			cc.Size = c16CacheSize
		}
		if storeDir != "" {
			cc.Size, cc.Store = 8, "badger://"+storeDir+"/shared"
		}
		c.Caches = append(c.Caches, cc)
	}
	for _, u := range a.Upstreams {
		uc := config.UpstreamConfig{Name: u.Name, Policy: u.Policy, AcceptEncoding: u.AE, HealthCheck: "/health"}
		for _, s := range u.Servers {
			uc.Servers = append(uc.Servers, config.UpstreamServerConfig{Addr: c16Ups[s].URL()})
		}
		c.Upstreams = append(c.Upstreams, uc)
	}
	for _, l := range a.Locations {
		lc := config.LocationConfig{Name: l.Name, Upstream: l.Upstream, Hosts: l.Hosts, Prefixes: l.Prefixes, ReqHeaders: l.ReqH, RespHeaders: l.RespH, QueryStrings: l.Query}
		if l.Rewrite {
			lc.Rewrites = []string{"/p1/*:/rewritten/$1"}
		}
		c.Locations = append(c.Locations, lc)
	}
	for _, s := range a.Servers {
		c.Servers = append(c.Servers, config.ServerConfig{Addr: fmt.Sprintf("127.0.0.1:%d", ports[s.Slot]), Locations: s.Locations, Cache: s.Cache, Compress: s.Compress,
			CompressMinLength: s.MinLength, CompressContentTypeFilter: s.Filter})
	}
	return c
}

// battery probes every server of the final config; observations are compared between the two processes
func battery(cl *http.Client, a aConfig, ports []int, tag string) map[string]string {
	obs := map[string]string{}
	rec := func(name string, r *presp, fields ...string) {
		if r.Err != "" {
			obs[name] = "ERR " + r.Err
			return
		}
		parts := []string{fmt.Sprintf("status=%d", r.Code)}
		if r.Code >= 400 {
			parts = append(parts, "error="+string(r.Raw))
		}
		for _, f := range fields {
			switch f {
			case "len":
				parts = append(parts, fmt.Sprintf("len=%d", len(r.Raw)))
			case "hash":
				parts = append(parts, "hash="+h32(r.Raw))
			default:
				parts = append(parts, f+"="+strings.Join(r.Header.Values(f), "|"))
			}
		}
		obs[name] = strings.Join(parts, " ")
	}
	minOf := map[string]int{"": 1024, "100": 100, "1kb": 1024, "4kb": 4096}
	for _, s := range a.Servers {
		addr := fmt.Sprintf("127.0.0.1:%d", ports[s.Slot])
		// routing / rewrite / added headers and query, for every host x prefix combination
		for _, host := range []string{"h1.test", "h2.test", "other.test"} {
			for _, path := range []string{"/p1/x", "/p2/x", "/zz"} {
				name := fmt.Sprintf("s%d route %s%s", s.Slot, host, path)
				r := pget(cl, addr, host, path+"?size=20&type=text/plain&t="+tag, map[string]string{"Accept-Encoding": "gzip"})
				rec(name, r, "X-Upstream", "X-Echo-Path", "X-Echo-Query", "X-Echo-Added", "X-Echo-Ae", "X-Resp-1", "X-Resp-2", "Content-Encoding", "len")
			}
		}
		// compression thresholds and filters (uncacheable bodies)
		sizes := []int{50, 99, 101, 1023, 1025, 4095, 4097, minOf[s.MinLength] - 1, minOf[s.MinLength] + 1}
		for _, size := range sizes {
			for _, typ := range []string{"text/plain", "image/png", "application/json"} {
				for _, ae := range []string{"gzip", "br"} {
					name := fmt.Sprintf("s%d compress size=%d type=%s ae=%s", s.Slot, size, typ, ae)
					r := pget(cl, addr, "h1.test", fmt.Sprintf("/p1/c?size=%d&type=%s&t=%s", size, typ, tag), map[string]string{"Accept-Encoding": ae})
					rec(name, r, "Content-Encoding", "len", "hash")
				}
			}
		}
		// cacheable: stored with the best-compression profile; level fingerprint = body hash
		for _, typ := range []string{"text/plain", "image/png"} {
			uri := fmt.Sprintf("/p1/k-%s?size=6000&type=%s&cc=300&t=%s", strings.ReplaceAll(typ, "/", "-"), typ, tag)
			r1 := pget(cl, addr, "h1.test", uri, map[string]string{"Accept-Encoding": "gzip"})
			rec(fmt.Sprintf("s%d cacheable %s first", s.Slot, typ), r1, "X-Status", "Content-Encoding", "len", "hash")
			r2 := pget(cl, addr, "h1.test", uri, map[string]string{"Accept-Encoding": "gzip"})
			rec(fmt.Sprintf("s%d cacheable %s second", s.Slot, typ), r2, "X-Status", "Content-Encoding", "len", "hash")
			r3 := pget(cl, addr, "h1.test", uri, map[string]string{"Accept-Encoding": "br"})
			rec(fmt.Sprintf("s%d cacheable %s br", s.Slot, typ), r3, "X-Status", "Content-Encoding", "len", "hash")
		}
	}
	// cache sharing between servers: a key stored through one server, asked through the others
	for _, s := range a.Servers {
		addr := fmt.Sprintf("127.0.0.1:%d", ports[s.Slot])
		uri := fmt.Sprintf("/p1/shared?size=300&type=text/plain&cc=300&t=%s", tag)
		r := pget(cl, addr, "h1.test", uri, nil)
		rec(fmt.Sprintf("s%d shared", s.Slot), r, "X-Status")
	}
	return obs
}

// filterReadded drops servers that re-appear after having been removed earlier
// in the sequence (known finding server-readded-within-close-grace)
func filterReadded(sc c16Scenario) (c16Scenario, int) {
	removed := map[int]bool{}
	n := 0
	res := c16Scenario{Store: sc.Store, DetourMs: sc.DetourMs, CacheSize: sc.CacheSize}
	var prevSlots map[int]bool
	for _, c := range sc.Configs {
		c = cloneA(c)
		var keep []aServer
		for _, s := range c.Servers {
			if removed[s.Slot] {
				n++
				continue
			}
			keep = append(keep, s)
		}
		c.Servers = keep
		cur := map[int]bool{}
		for _, s := range c.Servers {
			cur[s.Slot] = true
		}
		for slot := range prevSlots {
			if !cur[slot] {
				removed[slot] = true
			}
		}
		prevSlots = cur
		res.Configs = append(res.Configs, c)
	}
	return res, n
}

func execC16(sc c16Scenario) *vstat.Outcome {
	if vstat.KnownOpen("server-readded-within-close-grace") {
		filtered, n := filterReadded(sc)
		out := execC16raw(filtered)
		if n > 0 {
			out.Excluded = map[string]int{"server-readded-within-close-grace": n}
		}
		return out
	}
	return execC16raw(sc)
}

func execC16raw(sc c16Scenario) *vstat.Outcome {
	out := &vstat.Outcome{}
	c16CacheSize = sc.CacheSize
	if sc.CacheSize%8 != 0 {
		out.Class("cache_size_not_divided_evenly_by_the_shards")
	}
	c16Once.Do(func() {
		for _, n := range []string{"A", "B", "C"} {
			c16Ups = append(c16Ups, newEchoUpstream(n))
		}
	})
	dir, err := os.MkdirTemp("", "verif-c16-")
	if err != nil {
		out.Inconclusive = true
		return out
	}
	defer os.RemoveAll(dir)
	ports := freePorts(12) // 0-4 live servers, 5-9 fresh servers, 10-11 admin
	livePorts, freshPorts := ports[0:5], ports[5:10]
	liveDir, freshDir := dir+"/live", dir+"/fresh"
	_ = os.MkdirAll(liveDir, 0o755)
	_ = os.MkdirAll(freshDir, 0o755)
	liveStore, freshStore := "", ""
	if sc.Store {
		liveStore, freshStore = liveDir, freshDir
	}
	first, err := marshalConfig(toPikeConfig(sc.Configs[0], livePorts, liveStore))
	if err != nil {
		out.Inconclusive = true
		return out
	}
	live, err := startPike(liveDir, first, ports[10])
	if err != nil {
		out.Inconclusive = true
		return out
	}
	defer live.kill()
	for _, s := range sc.Configs[0].Servers {
		if !waitPort(fmt.Sprintf("127.0.0.1:%d", livePorts[s.Slot]), 15*time.Second) {
			out.Inconclusive = true
			return out
		}
	}
	cl := newHTTPClient()
	// an entry cached before the sequence in a cache that survives every step
	surviving := ""
	for _, cn := range sc.Configs[0].Caches {
		all := true
		for _, c := range sc.Configs {
			found := false
			for _, x := range c.Caches {
				if x == cn {
					found = true
				}
			}
			if !found {
				all = false
			}
		}
		if all {
			surviving = cn
		}
	}
	retainURI := "/p1/retain?size=100&type=text/plain&cc=300"
	// a memory-only cache that is absent from some configuration in between and present again at the
	// end (removed and re-created under the same name): what it held before must be gone, as after a fresh start
	recreated, staleURI, stalePrimed := "", "/p1/stale?size=100&type=text/plain&cc=300", false
	if !sc.Store && len(sc.Configs) >= 3 {
		finalCfg := sc.Configs[len(sc.Configs)-1]
		has := func(c aConfig, cn string) bool {
			for _, x := range c.Caches {
				if x == cn {
					return true
				}
			}
			return false
		}
		for _, cn := range sc.Configs[0].Caches {
			if !has(finalCfg, cn) {
				continue
			}
			for _, c := range sc.Configs[1 : len(sc.Configs)-1] {
				if !has(c, cn) {
					recreated = cn
				}
			}
		}
		if recreated != "" {
			for _, s := range sc.Configs[0].Servers {
				if s.Cache == recreated {
					r := pget(cl, fmt.Sprintf("127.0.0.1:%d", livePorts[s.Slot]), "h1.test", staleURI, nil)
					r2 := pget(cl, fmt.Sprintf("127.0.0.1:%d", livePorts[s.Slot]), "h1.test", staleURI, nil)
					stalePrimed = r.Err == "" && r.Code == 200 && r2.Err == "" && r2.Header.Get("X-Status") == "hit"
					break
				}
			}
		}
	}
	// with a store the working set is larger than the memory of the cache: most of the
	// entries live in the store only and must come back from there
	var retainMore []string
	if sc.Store {
		for i := 0; i < 40; i++ {
			retainMore = append(retainMore, fmt.Sprintf("/p1/retain-%d?size=100&type=text/plain&cc=300", i))
		}
	}
	primed := false
	if surviving != "" {
		for _, s := range sc.Configs[0].Servers {
			if s.Cache == surviving {
				r := pget(cl, fmt.Sprintf("127.0.0.1:%d", livePorts[s.Slot]), "h1.test", retainURI, nil)
				r2 := pget(cl, fmt.Sprintf("127.0.0.1:%d", livePorts[s.Slot]), "h1.test", retainURI, nil)
				primed = r.Err == "" && r.Code == 200 && r2.Err == "" && r2.Header.Get("X-Status") == "hit"
				for _, u := range retainMore {
					ru := pget(cl, fmt.Sprintf("127.0.0.1:%d", livePorts[s.Slot]), "h1.test", u, nil)
					if ru.Err != "" || ru.Code != 200 {
						primed = false
					}
				}
				// all of them are hits now (reloaded from the store where need be)
				for _, u := range retainMore {
					ru := pget(cl, fmt.Sprintf("127.0.0.1:%d", livePorts[s.Slot]), "h1.test", u, nil)
					if ru.Err != "" || ru.Header.Get("X-Status") != "hit" {
						primed = false
						if os.Getenv("VERIF_DEBUG") != "" {
							fmt.Printf("DEBUG retain %s: err %q status %d X-Status %q\n", u, ru.Err, ru.Code, ru.Header.Get("X-Status"))
						}
					}
				}
				break
			}
		}
	}
	if os.Getenv("VERIF_DEBUG") != "" {
		fmt.Printf("DEBUG store=%v surviving=%q primed=%v\n", sc.Store, surviving, primed)
	}
	inPlace, setUnset := false, false
	trafficReqs := 0
	removedSlots := map[int]bool{}
	for i := 1; i < len(sc.Configs); i++ {
		prev, cur := sc.Configs[i-1], sc.Configs[i]
		for _, ps := range prev.Servers {
			found := false
			for _, cs := range cur.Servers {
				if cs.Slot == ps.Slot {
					found = true
					if fmt.Sprint(cs) != fmt.Sprint(ps) {
						inPlace = true
					}
					if (ps.MinLength != "" && cs.MinLength == "") || (ps.Filter != "" && cs.Filter == "") || (ps.Compress != "" && cs.Compress == "") {
						setUnset = true
					}
				}
			}
			if !found {
				removedSlots[ps.Slot] = true
			}
		}
		for _, cs := range cur.Servers {
			delete(removedSlots, cs.Slot)
		}
		data, err := marshalConfig(toPikeConfig(cur, livePorts, liveStore))
		if err != nil {
			out.Inconclusive = true
			return out
		}
		// client traffic on a server whose whole closure (server, its locations, their
		// upstreams, its cache) is identical before and after this update must never fail
		stopTraffic := func() (int, string) { return 0, "" }
		if slot, ok := unchangedServer(prev, cur); ok {
			addr := fmt.Sprintf("127.0.0.1:%d", livePorts[slot])
			host, path := "", ""
			for _, h := range []string{"h1.test", "h2.test", "other.test"} {
				for _, pth := range []string{"/p1/t", "/p2/t", "/zz"} {
					if host == "" {
						if r := pget(cl, addr, h, pth+"?size=30&type=text/plain", nil); r.Err == "" && r.Code == 200 {
							host, path = h, pth
						}
					}
				}
			}
			if host != "" {
				var wgT sync.WaitGroup
				quit := make(chan struct{})
				var nReq int
				var firstErr string
				wgT.Add(1)
				go func() {
					defer wgT.Done()
					tcl := newHTTPClient()
					for {
						select {
						case <-quit:
							return
						default:
						}
						r := pget(tcl, addr, host, path+"?size=30&type=text/plain", nil)
						nReq++
						if (r.Err != "" || r.Code != 200) && firstErr == "" {
							firstErr = fmt.Sprintf("request %d to unchanged server slot %d (%s%s) during update %d: err %q status %d body %q", nReq, slot, host, path, i, r.Err, r.Code, string(r.Raw))
						}
						time.Sleep(time.Millisecond)
					}
				}()
				stopTraffic = func() (int, string) {
					time.Sleep(20 * time.Millisecond)
					close(quit)
					wgT.Wait()
					return nReq, firstErr
				}
			}
		}
		uerr := live.update(data, 20*time.Second)
		if n, e := stopTraffic(); n > 0 {
			trafficReqs += n
			if e != "" {
				out.Violate("C16", "unchanged-server-disturbed", "%s", e)
			}
		}
		if err := uerr; err != nil {
			if !live.alive() {
				out.Violate("C16", "crash", "the live process exited while configuration %d was applied: %v; last output: %v", i, err, tail(live.errorLines(), 5))
				return out
			}
			if i == len(sc.Configs)-1 && len(cur.Servers) == 0 {
				// no acknowledgement for the configuration without servers: whether it was applied shows below (the listeners must go away)
				out.Class("no_acknowledgement_for_empty_server_list")
			} else {
				out.Inconclusive = true
				return out
			}
		}
		for _, s := range cur.Servers {
			if !waitPort(fmt.Sprintf("127.0.0.1:%d", livePorts[s.Slot]), 15*time.Second) {
				out.Violate("C16", "not-listening", "after update %d server slot %d does not accept connections", i, s.Slot)
				return out
			}
		}
	}
	final := sc.Configs[len(sc.Configs)-1]
	if sc.DetourMs > 0 {
		c16SlowOnce.Do(func() {
			c16Slow = newEchoUpstream("S")
			c16Slow.healthDelay = 150 * time.Millisecond
		})
		detour := toPikeConfig(final, livePorts, liveStore)
		for i := range detour.Servers {
			detour.Servers[i].CompressMinLength = "7kb"
		}
		detour.Upstreams = append(detour.Upstreams, config.UpstreamConfig{Name: "detour", HealthCheck: "/health", Servers: []config.UpstreamServerConfig{{Addr: c16Slow.URL()}}})
		dData, err1 := marshalConfig(detour)
		fData, err2 := marshalConfig(toPikeConfig(final, livePorts, liveStore))
		if err1 != nil || err2 != nil {
			out.Inconclusive = true
			return out
		}
		before := live.reloadCount()
		if err := live.write(dData); err != nil {
			out.Inconclusive = true
			return out
		}
		time.Sleep(time.Duration(sc.DetourMs) * time.Millisecond)
		if err := live.write(fData); err != nil {
			out.Inconclusive = true
			return out
		}
		if !live.settle(before, 800*time.Millisecond, 20*time.Second) {
			if !live.alive() {
				out.Violate("C16", "crash", "the live process exited during two saves %d ms apart; last output: %v", sc.DetourMs, tail(live.errorLines(), 5))
				return out
			}
			out.Inconclusive = true
			return out
		}
		out.Class("two_saves_in_quick_succession")
	}
	freshCfg, err := marshalConfig(toPikeConfig(final, freshPorts, freshStore))
	if err != nil {
		out.Inconclusive = true
		return out
	}
	fresh, err := startPike(freshDir, freshCfg, ports[11])
	if err != nil {
		out.Inconclusive = true
		return out
	}
	defer fresh.kill()
	for _, s := range final.Servers {
		if !waitPort(fmt.Sprintf("127.0.0.1:%d", freshPorts[s.Slot]), 15*time.Second) {
			out.Inconclusive = true
			return out
		}
	}
	tag := fmt.Sprintf("%d", time.Now().UnixNano()%1000000)
	obsLive := battery(cl, final, livePorts, tag)
	obsFresh := battery(cl, final, freshPorts, tag)
	names := make([]string, 0, len(obsFresh))
	for n := range obsFresh {
		names = append(names, n)
	}
	sort.Strings(names)
	diffs := 0
	for _, n := range names {
		if obsLive[n] != obsFresh[n] {
			diffs++
			if diffs <= 4 {
				out.Violate("C16", "differs-from-fresh-start", "probe %q: live-updated process: [%s]; freshly started process: [%s]", n, obsLive[n], obsFresh[n])
			}
		}
	}
	if primed {
		// the entry cached before the sequence must still be a hit through any server bound to that cache
		for _, s := range final.Servers {
			if s.Cache == surviving {
				r := pget(cl, fmt.Sprintf("127.0.0.1:%d", livePorts[s.Slot]), "h1.test", retainURI, nil)
				if r.Err != "" || r.Header.Get("X-Status") != "hit" {
					out.Violate("C16", "cache-lost", "an entry cached in %s before the updates is no longer a hit afterwards (status %d, X-Status %q, err %q)", surviving, r.Code, r.Header.Get("X-Status"), r.Err)
				}
				lost := 0
				for _, u := range retainMore {
					ru := pget(cl, fmt.Sprintf("127.0.0.1:%d", livePorts[s.Slot]), "h1.test", u, nil)
					if ru.Err != "" || ru.Header.Get("X-Status") != "hit" {
						lost++
					}
				}
				if lost > 0 {
					out.Violate("C16", "cache-lost", "%d of %d entries cached in %s (8 entries in memory, the rest in its store) before the updates are no longer hits afterwards although the cache survived every update", lost, len(retainMore), surviving)
				}
				if len(retainMore) > 0 {
					out.Class("retained_entries_in_store_checked")
				}
				out.Class("retained_entry_checked")
				break
			}
		}
	}
	if stalePrimed {
		for _, s := range final.Servers {
			if s.Cache == recreated {
				r := pget(cl, fmt.Sprintf("127.0.0.1:%d", livePorts[s.Slot]), "h1.test", staleURI, nil)
				if r.Err == "" && r.Header.Get("X-Status") == "hit" {
					out.Violate("C16", "recreated-cache-not-empty", "cache %s (memory only) was removed by an update and created again by a later one; a response it held before its removal is still served as a hit through server slot %d -- an instance freshly started with the final configuration has to fetch it", recreated, s.Slot)
				}
				out.Class("removed_and_recreated_cache_checked")
				break
			}
		}
	}
	lastEmpty := len(final.Servers) == 0 && (emptyChecks < 1 || vstat.Tier() == "thorough" && emptyChecks < 4)
	if lastEmpty {
		emptyChecks++
		out.Class("last_configuration_has_no_server")
	}
	if len(removedSlots) > 0 && os.Getenv("VERIF_C16_SKIP_GRACE") == "" && (lastEmpty || graceChecks < 2 || len(removedSlots) >= 2 && graceChecks < 4 || vstat.Tier() == "thorough" && graceChecks < 12) {
		graceChecks++
		// removed servers stop listening (pike closes them after a 10 s grace period)
		deadline := time.Now().Add(40 * time.Second)
		for slot := range removedSlots {
			addr := fmt.Sprintf("127.0.0.1:%d", livePorts[slot])
			for !portClosed(addr) && time.Now().Before(deadline) {
				time.Sleep(250 * time.Millisecond)
			}
			if !portClosed(addr) {
				out.Violate("C16", "removed-server-listening", "server slot %d was removed from the configuration but still accepts connections 40 s later", slot)
			}
		}
		out.Class("removed_server_checked")
		if len(removedSlots) >= 2 {
			out.Class("several_servers_removed_checked")
		}
	}
	if !live.alive() {
		out.Violate("C16", "crash", "the live process exited; last output: %v", tail(live.errorLines(), 5))
	}
	out.NonTrivial = inPlace && setUnset
	if trafficReqs > 0 {
		out.Class("traffic_on_unchanged_server_during_update")
	}
	if inPlace {
		out.Class("server_modified_in_place")
	}
	if setUnset {
		out.Class("optional_field_set_to_unset")
	}
	out.Evals = len(obsFresh)
	return out
}

// unchangedServer finds a server slot whose own settings, locations, the upstreams
// they use and the cache are identical in both configurations
func unchangedServer(a, b aConfig) (int, bool) {
	for _, sa := range a.Servers {
		for _, sb := range b.Servers {
			if sa.Slot != sb.Slot || fmt.Sprint(sa) != fmt.Sprint(sb) {
				continue
			}
			same := true
			// all locations and upstreams (routing consults every listed location)
			if fmt.Sprint(a.Locations) != fmt.Sprint(b.Locations) || fmt.Sprint(a.Upstreams) != fmt.Sprint(b.Upstreams) {
				same = false
			}
			hasCache := func(c aConfig, n string) bool {
				for _, x := range c.Caches {
					if x == n {
						return true
					}
				}
				return false
			}
			if !hasCache(a, sa.Cache) || !hasCache(b, sb.Cache) {
				same = false
			}
			if same {
				return sa.Slot, true
			}
		}
	}
	return 0, false
}

func tail(s []string, n int) []string {
	if len(s) > n {
		return s[len(s)-n:]
	}
	return s
}

// TestC16ProbeReadded demonstrates the finding server-readded-within-close-grace:
// a server removed by one update and added again by the next one (within pike's
// 10 s close grace) never listens again
func TestC16ProbeReadded(t *testing.T) {
	rec := vstat.For("C16", t.Name(), "proc")
	base := aConfig{Caches: []string{"cA"}, Upstreams: []aUpstream{{Name: "upA", Servers: []int{0}}},
		Locations: []aLocation{{Name: "locA", Upstream: "upA"}},
		Servers:   []aServer{{Slot: 0, Locations: []string{"locA"}, Cache: "cA"}, {Slot: 1, Locations: []string{"locA"}, Cache: "cA"}}}
	without := cloneA(base)
	without.Servers = without.Servers[:1]
	sc := c16Scenario{Configs: []aConfig{base, without, base}}
	os.Setenv("VERIF_NO_EXCLUDE", "1")
	os.Setenv("VERIF_C16_SKIP_GRACE", "1")
	out := execC16raw(sc)
	out.NonTrivial = true
	vstat.RunOne(t, rec, sc, out)
}

func TestC16(t *testing.T) {
	vstat.Run(t, "C16", "proc", genC16, execC16)
}
