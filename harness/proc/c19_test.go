//go:build verif

package proc

// C19 (the real binary, its own periodic health checker, an alarm receiver
// configured): pike posts an alarm when a server changes its state. Whatever
// the alarm receiver does -- answer, answer slowly, never answer, refuse --
// the routing keeps following the health of the servers: a failed server is
// left within a few check periods, a recovered one gets traffic again, and a
// second failure afterwards is noticed too.

import (
	"fmt"
	"net"
	"net/http"
	"os"
	"sync"
	"testing"
	"time"

	"github.com/vicanso/pike/config"
	"pgregory.net/rapid"

	"verif/harness/internal/vstat"
)

type c19Alarm struct {
	Receiver string `json:"receiver"` // hang | slow | ok | refuse | none
	Policy   string `json:"policy"`
	First    int    `json:"first"` // which server fails first
}

var (
	c19aOnce sync.Once
	c19aUps  [2]*echoUpstream
	c19aHang net.Listener
	c19aSlow *http.Server
	c19aAddr [3]string // hang, slow, ok
)

func genC19Alarm(t *rapid.T) c19Alarm {
	return c19Alarm{
		Receiver: rapid.SampledFrom([]string{"hang", "hang", "slow", "ok", "refuse", "none"}).Draw(t, "receiver"),
		Policy:   rapid.SampledFrom([]string{"roundRobin", "", "first", "random"}).Draw(t, "policy"),
		First:    rapid.IntRange(0, 1).Draw(t, "first"),
	}
}

func execC19Alarm(sc c19Alarm) *vstat.Outcome {
	out := &vstat.Outcome{}
	c19aOnce.Do(func() {
		c19aUps[0], c19aUps[1] = newEchoUpstream("A"), newEchoUpstream("B")
		// a receiver that accepts connections and never answers
		ln, err := net.Listen("tcp", "127.0.0.1:0")
		if err == nil {
			c19aHang = ln
			c19aAddr[0] = ln.Addr().String()
			go func() {
				var held []net.Conn
				for {
					c, err := ln.Accept()
					if err != nil {
						return
					}
					held = append(held, c) // kept open, never answered
					_ = held
				}
			}()
		}
		mk := func(delay time.Duration) string {
			l, err := net.Listen("tcp", "127.0.0.1:0")
			if err != nil {
				return ""
			}
			go func() {
				_ = http.Serve(l, http.HandlerFunc(func(w http.ResponseWriter, r *http.Request) {
					time.Sleep(delay)
					w.WriteHeader(200)
				}))
			}()
			return l.Addr().String()
		}
		c19aAddr[1] = mk(3 * time.Second)
		c19aAddr[2] = mk(0)
	})
	for _, u := range c19aUps {
		u.setSick(false)
	}
	defer func() {
		for _, u := range c19aUps {
			u.setSick(false)
		}
	}()
	dir, err := os.MkdirTemp("", "verif-c19-")
	if err != nil {
		out.Inconclusive = true
		return out
	}
	defer os.RemoveAll(dir)
	ports := freePorts(3)
	srvAddr := fmt.Sprintf("127.0.0.1:%d", ports[0])
	cfg := &config.PikeConfig{
		Caches:    []config.CacheConfig{{Name: "c19", Size: 100, HitForPass: "1s"}},
		Upstreams: []config.UpstreamConfig{{Name: "c19up", Policy: sc.Policy, HealthCheck: "/health", Servers: []config.UpstreamServerConfig{{Addr: c19aUps[0].URL()}, {Addr: c19aUps[1].URL()}}}},
		Locations: []config.LocationConfig{{Name: "c19loc", Upstream: "c19up"}},
		Servers:   []config.ServerConfig{{Addr: srvAddr, Locations: []string{"c19loc"}, Cache: "c19"}},
	}
	data, err := marshalConfig(cfg)
	if err != nil {
		out.Inconclusive = true
		return out
	}
	var args []string
	switch sc.Receiver {
	case "hang":
		args = []string{"--alarm", "http://" + c19aAddr[0] + "/alarms"}
	case "slow":
		args = []string{"--alarm", "http://" + c19aAddr[1] + "/alarms"}
	case "ok":
		args = []string{"--alarm", "http://" + c19aAddr[2] + "/alarms"}
	case "refuse":
		args = []string{"--alarm", fmt.Sprintf("http://127.0.0.1:%d/alarms", ports[2])}
	}
	p, err := startPikeArgs(dir, data, ports[1], args)
	if err != nil {
		out.Inconclusive = true
		return out
	}
	defer p.kill()
	if !waitPort(srvAddr, 15*time.Second) {
		out.Inconclusive = true
		return out
	}
	cl := newHTTPClient()
	// served: which upstreams answered k uncacheable requests, and how many failed
	served := func(tag string, k int) (map[string]int, int) {
		res, failed := map[string]int{}, 0
		for i := 0; i < k; i++ {
			r := pget(cl, srvAddr, "c19.test", fmt.Sprintf("/c19/%s/%d?size=20&type=text/plain", tag, i), nil)
			if r.Err != "" || r.Code != 200 {
				failed++
				continue
			}
			res[r.Header.Get("X-Upstream")]++
		}
		return res, failed
	}
	// until: the traffic reaches the wanted state within 20 s (four periods of pike's own checker)
	until := func(tag string, ok func(m map[string]int, failed int) bool) (map[string]int, int, bool) {
		deadline := time.Now().Add(20 * time.Second)
		var m map[string]int
		var f int
		for n := 0; time.Now().Before(deadline); n++ {
			m, f = served(fmt.Sprintf("%s-%d", tag, n), 6)
			if ok(m, f) {
				return m, f, true
			}
			time.Sleep(700 * time.Millisecond)
		}
		return m, f, false
	}
	names := [2]string{"A", "B"}
	a, b := sc.First, 1-sc.First
	if m, f, ok := until("start", func(m map[string]int, f int) bool { return f == 0 && (sc.Policy == "first" || m["A"] > 0 && m["B"] > 0 || sc.Policy == "random") }); !ok {
		out.Violate("C19", "start", "both servers are healthy but the traffic is %v with %d failures", m, f)
		return out
	}
	c19aUps[a].setSick(true)
	if m, f, ok := until("down1", func(m map[string]int, f int) bool { return f == 0 && m[names[a]] == 0 }); !ok {
		out.Violate("C19", "down-server-used", "alarm receiver %q: server %s has been failing its health check for 20 s but the traffic is %v with %d failures", sc.Receiver, names[a], m, f)
		return out
	}
	c19aUps[a].setSick(false)
	if sc.Policy != "first" || a == 0 {
		if m, f, ok := until("up1", func(m map[string]int, f int) bool { return f == 0 && m[names[a]] > 0 }); !ok {
			out.Violate("C19", "no-recovery", "alarm receiver %q: server %s has been healthy again for 20 s but gets no traffic: %v (%d failures)", sc.Receiver, names[a], m, f)
			return out
		}
	} else {
		time.Sleep(8 * time.Second)
	}
	c19aUps[b].setSick(true)
	if m, f, ok := until("down2", func(m map[string]int, f int) bool { return f == 0 && m[names[b]] == 0 }); !ok {
		out.Violate("C19", "down-server-used", "alarm receiver %q: after server %s recovered, server %s has been failing its health check for 20 s but the traffic is %v with %d failures", sc.Receiver, names[a], names[b], m, f)
		return out
	}
	out.NonTrivial = true
	out.Class("alarm_receiver_" + sc.Receiver)
	out.Evals = 1
	return out
}

func TestC19Alarm(t *testing.T) {
	vstat.Run(t, "C19", "proc", genC19Alarm, execC19Alarm)
}
