//go:build verif

package proc

// Engine P: the real pike binary (built by the driver from /repo's tree),
// driven through its config file, sockets and signals.

import (
	"bufio"
	"fmt"
	"hash/fnv"
	"io"
	"net"
	"net/http"
	"os"
	"os/exec"
	"path/filepath"
	"strconv"
	"strings"
	"sync"
	"syscall"
	"testing"
	"time"

	"github.com/vicanso/pike/config"
	"gopkg.in/yaml.v2"

	"verif/harness/internal/vstat"
)

func TestMain(m *testing.M) { vstat.Main(m) }

func pikeBin() string {
	if p := os.Getenv("VERIF_PIKE_BIN"); p != "" {
		return p
	}
	return "/verif/.build/pike"
}

// ---------------------------------------------------------------------
// echo upstream

type echoLog struct {
	ReqID  string
	Name   string
	Method string
	URI    string
	At     time.Time
	Serial int
}

type echoUpstream struct {
	sick        bool          // answers 500 to everything
	healthDelay time.Duration // how long a health check takes (set before use)
	name   string
	ln     net.Listener
	mu     sync.Mutex
	logs   []echoLog
	serial int
}

func echoBody(size int, salt string) []byte {
	unit := []byte("lorem ipsum dolor sit amet, consectetur adipiscing elit " + salt + "\n")
	b := make([]byte, 0, size+len(unit))
	for len(b) < size {
		b = append(b, unit...)
	}
	return b[:size]
}

func newEchoUpstream(name string) *echoUpstream {
	ln, err := net.Listen("tcp", "127.0.0.1:0")
	if err != nil {
		panic(err)
	}
	u := &echoUpstream{name: name, ln: ln}
	go func() { _ = http.Serve(ln, http.HandlerFunc(u.handle)) }()
	return u
}

func (u *echoUpstream) setSick(v bool) {
	u.mu.Lock()
	u.sick = v
	u.mu.Unlock()
}

func (u *echoUpstream) URL() string { return "http://" + u.ln.Addr().String() }

// query parameters understood: size, type, cc (max-age seconds, 0 none), v (version salt), status
func (u *echoUpstream) handle(w http.ResponseWriter, r *http.Request) {
	u.mu.Lock()
	sick := u.sick
	u.mu.Unlock()
	if sick {
		// the listener stays open, every request (health checks included) fails
		w.WriteHeader(500)
		return
	}
	if r.URL.Path == "/health" {
		if u.healthDelay > 0 {
			time.Sleep(u.healthDelay)
		}
		w.WriteHeader(200)
		return
	}
	_, _ = io.Copy(io.Discard, r.Body)
	q := r.URL.Query()
	u.mu.Lock()
	u.serial++
	serial := u.serial
	u.logs = append(u.logs, echoLog{ReqID: r.Header.Get("X-Req-Id"), Name: u.name, Method: r.Method, URI: r.RequestURI, At: time.Now(), Serial: serial})
	u.mu.Unlock()
	size, _ := strconv.Atoi(q.Get("size"))
	h := w.Header()
	if t := q.Get("type"); t != "" {
		h.Set("Content-Type", t)
	}
	if cc, _ := strconv.Atoi(q.Get("cc")); cc > 0 {
		h.Set("Cache-Control", "max-age="+strconv.Itoa(cc))
	}
	h.Set("X-Upstream", u.name)
	h.Set("Vary", "Accept-Encoding, X-Client-Kind")
	h.Set("Last-Modified", "Wed, 21 Oct 2015 07:28:00 GMT")
	h.Add("Link", "</a>; rel=preload")
	h.Add("Link", "</b>; rel=preload, </c>; rel=prefetch")
	h.Set("X-Serial", u.name+"-"+strconv.Itoa(serial))
	h.Set("X-Echo-Path", r.URL.EscapedPath())
	if q := r.URL.RawQuery; len(q) > 4096 {
		h.Set("X-Echo-Query", "..."+q[len(q)-200:]) // very long queries: the tail identifies the request
	} else {
		h.Set("X-Echo-Query", q)
	}
	h.Set("X-Echo-Ae", r.Header.Get("Accept-Encoding"))
	var added []string
	for _, n := range []string{"X-Add-1", "X-Add-2"} {
		added = append(added, n+"="+strings.Join(r.Header.Values(n), "|"))
	}
	h.Set("X-Echo-Added", strings.Join(added, ";"))
	status := 200
	if s, _ := strconv.Atoi(q.Get("status")); s > 0 {
		status = s
	}
	body := echoBody(size, q.Get("v"))
	h.Set("Content-Length", strconv.Itoa(len(body)))
	w.WriteHeader(status)
	if r.Method != http.MethodHead {
		_, _ = w.Write(body)
	}
}

func (u *echoUpstream) sawReq(id string) bool {
	u.mu.Lock()
	defer u.mu.Unlock()
	for _, l := range u.logs {
		if l.ReqID == id {
			return true
		}
	}
	return false
}

// ---------------------------------------------------------------------
// pike process

type pikeProc struct {
	cmd      *exec.Cmd
	dir      string
	cfgFile  string
	mu       sync.Mutex
	reloads  int
	lines    []string
	exited   chan struct{}
	padTo    int
	adminAdr string
}

const cfgPad = 24 << 10

func padConfig(data []byte) ([]byte, error) {
	if len(data)+2 > cfgPad {
		return nil, fmt.Errorf("config of %d bytes exceeds the padded size", len(data))
	}
	out := make([]byte, 0, cfgPad)
	out = append(out, data...)
	out = append(out, '\n', '#')
	for len(out) < cfgPad-1 {
		out = append(out, ' ')
	}
	out = append(out, '\n')
	return out, nil
}

func marshalConfig(c *config.PikeConfig) ([]byte, error) {
	data, err := yaml.Marshal(c)
	if err != nil {
		return nil, err
	}
	return padConfig(data)
}

// freePorts hands out ports from a range private to this shard (below the
// ephemeral range, so that neither other shards nor outgoing connections or
// the harness upstreams, which listen on ephemeral ports, can take them)
var portCursor = (os.Getpid() * 37) % 1000 // concurrent runs of the same shard start at different offsets

var portLocks []string

func lockPort(lock string) bool {
	for attempt := 0; attempt < 2; attempt++ {
		f, err := os.OpenFile(lock, os.O_CREATE|os.O_EXCL|os.O_WRONLY, 0o666)
		if err == nil {
			_, _ = f.WriteString(strconv.Itoa(os.Getpid()))
			_ = f.Close()
			return true
		}
		data, rerr := os.ReadFile(lock)
		if rerr != nil {
			return false
		}
		pid, _ := strconv.Atoi(strings.TrimSpace(string(data)))
		if pid <= 0 || syscall.Kill(pid, 0) == nil {
			return false // the owner is alive (or is just writing its id)
		}
		_ = os.Remove(lock)
	}
	return false
}

func freePorts(n int) []int {
	shard, _ := vstat.Shard()
	rangeBase, span := 12000, 1000
	if v, err := strconv.Atoi(os.Getenv("VERIF_PORT_BASE")); err == nil && v > 0 {
		rangeBase = v
	}
	if v, err := strconv.Atoi(os.Getenv("VERIF_PORT_SPAN")); err == nil && v > 0 {
		span = v
	}
	base := rangeBase + (shard%16)*span
	// the ports of the previous case of this process are given back
	for _, f := range portLocks {
		_ = os.Remove(f)
	}
	portLocks = nil
	lockDir := filepath.Join(os.TempDir(), "verif-port-locks")
	_ = os.MkdirAll(lockDir, 0o777)
	var ports []int
	for tries := 0; len(ports) < n && tries < 5000; tries++ {
		p := base + portCursor%span
		portCursor++
		// another run of the checks on this machine may use the same ranges: a port is taken
		// under a lock file that names its owner (stale locks of dead processes are reclaimed)
		lock := filepath.Join(lockDir, strconv.Itoa(p))
		if !lockPort(lock) {
			continue
		}
		l, err := net.Listen("tcp", fmt.Sprintf("127.0.0.1:%d", p))
		if err != nil {
			_ = os.Remove(lock)
			continue
		}
		_ = l.Close()
		portLocks = append(portLocks, lock)
		ports = append(ports, p)
	}
	if len(ports) < n {
		panic("no free ports in the shard's range")
	}
	return ports
}

var extraPikeArgs []string

// startPikeArgs: startPike with further command line arguments
func startPikeArgs(dir string, cfg []byte, adminPort int, args []string) (*pikeProc, error) {
	extraPikeArgs = args
	defer func() { extraPikeArgs = nil }()
	return startPike(dir, cfg, adminPort)
}

func startPike(dir string, cfg []byte, adminPort int, env ...string) (*pikeProc, error) {
	p := &pikeProc{dir: dir, cfgFile: filepath.Join(dir, "pike.yml"), exited: make(chan struct{})}
	if _, err := os.Stat(p.cfgFile); err != nil || cfg != nil {
		if err := os.WriteFile(p.cfgFile, cfg, 0o600); err != nil {
			return nil, err
		}
	}
	p.adminAdr = fmt.Sprintf("127.0.0.1:%d", adminPort)
	p.cmd = exec.Command(pikeBin(), append([]string{"--config", p.cfgFile, "--admin", p.adminAdr}, extraPikeArgs...)...)
	p.cmd.Dir = dir
	p.cmd.Env = append(os.Environ(), append([]string{"GO_ENV=dev"}, env...)...)
	p.cmd.SysProcAttr = &syscall.SysProcAttr{Setpgid: true}
	stdout, err := p.cmd.StdoutPipe()
	if err != nil {
		return nil, err
	}
	p.cmd.Stderr = p.cmd.Stdout
	if err := p.cmd.Start(); err != nil {
		return nil, err
	}
	go func() {
		sc := bufio.NewScanner(stdout)
		sc.Buffer(make([]byte, 1<<20), 1<<20)
		for sc.Scan() {
			line := sc.Text()
			p.mu.Lock()
			if strings.Contains(line, "update config success") {
				p.reloads++
			}
			if len(p.lines) < 2000 && (strings.Contains(line, `"level":"error"`) || strings.Contains(line, "panic") || !strings.HasPrefix(line, "{")) {
				p.lines = append(p.lines, line)
			}
			p.mu.Unlock()
		}
		_ = p.cmd.Wait()
		close(p.exited)
	}()
	return p, nil
}

func (p *pikeProc) reloadCount() int {
	p.mu.Lock()
	defer p.mu.Unlock()
	return p.reloads
}

func (p *pikeProc) errorLines() []string {
	p.mu.Lock()
	defer p.mu.Unlock()
	return append([]string{}, p.lines...)
}

// update rewrites the config file in place with one pwrite of constant length
// and waits for pike's "update config success" line
func (p *pikeProc) update(cfg []byte, timeout time.Duration) error {
	before := p.reloadCount()
	f, err := os.OpenFile(p.cfgFile, os.O_WRONLY, 0o600)
	if err != nil {
		return err
	}
	_, err = f.WriteAt(cfg, 0)
	_ = f.Close()
	if err != nil {
		return err
	}
	deadline := time.Now().Add(timeout)
	for time.Now().Before(deadline) {
		if p.reloadCount() > before {
			return nil
		}
		select {
		case <-p.exited:
			return fmt.Errorf("pike exited during the update")
		default:
		}
		time.Sleep(5 * time.Millisecond)
	}
	return fmt.Errorf("no reload acknowledgement within %s", timeout)
}

// write replaces the configuration file's content in place without waiting for anything
func (p *pikeProc) write(cfg []byte) error {
	f, err := os.OpenFile(p.cfgFile, os.O_WRONLY, 0o600)
	if err != nil {
		return err
	}
	_, err = f.WriteAt(cfg, 0)
	_ = f.Close()
	return err
}

// settle waits until at least one reload has been acknowledged since `before` and no further one for `quiet`
func (p *pikeProc) settle(before int, quiet, timeout time.Duration) bool {
	deadline := time.Now().Add(timeout)
	last, lastChange := p.reloadCount(), time.Now()
	for time.Now().Before(deadline) {
		n := p.reloadCount()
		if n != last {
			last, lastChange = n, time.Now()
		}
		if n > before && time.Since(lastChange) >= quiet {
			return true
		}
		time.Sleep(10 * time.Millisecond)
	}
	return false
}

func (p *pikeProc) alive() bool {
	select {
	case <-p.exited:
		return false
	default:
		return true
	}
}

func (p *pikeProc) kill() {
	if p.cmd != nil && p.cmd.Process != nil {
		_ = syscall.Kill(-p.cmd.Process.Pid, syscall.SIGKILL)
		_ = p.cmd.Process.Kill()
	}
	select {
	case <-p.exited:
	case <-time.After(5 * time.Second):
	}
}

func (p *pikeProc) term() {
	if p.cmd != nil && p.cmd.Process != nil {
		_ = p.cmd.Process.Signal(syscall.SIGTERM)
	}
}

func waitPort(addr string, timeout time.Duration) bool {
	deadline := time.Now().Add(timeout)
	for time.Now().Before(deadline) {
		c, err := net.DialTimeout("tcp", addr, 200*time.Millisecond)
		if err == nil {
			_ = c.Close()
			return true
		}
		time.Sleep(10 * time.Millisecond)
	}
	return false
}

func portClosed(addr string) bool {
	c, err := net.DialTimeout("tcp", addr, 300*time.Millisecond)
	if err != nil {
		return true
	}
	_ = c.Close()
	return false
}

// ---------------------------------------------------------------------
// client

type presp struct {
	Err    string
	Code   int
	Header http.Header
	Raw    []byte
	ReqID  string
	Start  time.Time
	End    time.Time
}

var (
	reqMu  sync.Mutex
	reqCnt int
)

func nextID() string {
	reqMu.Lock()
	defer reqMu.Unlock()
	reqCnt++
	return fmt.Sprintf("p%d-%d", os.Getpid(), reqCnt)
}

func newHTTPClient() *http.Client {
	return &http.Client{Transport: &http.Transport{DisableCompression: true, DisableKeepAlives: true}, Timeout: 15 * time.Second,
		CheckRedirect: func(*http.Request, []*http.Request) error { return http.ErrUseLastResponse }}
}

func pget(cl *http.Client, addr, host, uri string, hdr map[string]string) *presp {
	res := &presp{ReqID: nextID(), Start: time.Now()}
	req, err := http.NewRequest("GET", "http://"+addr+uri, nil)
	if err != nil {
		res.Err = err.Error()
		return res
	}
	req.Host = host
	req.Header.Set("X-Req-Id", res.ReqID)
	for k, v := range hdr {
		req.Header.Set(k, v)
	}
	resp, err := cl.Do(req)
	if err != nil {
		res.Err = err.Error()
		res.End = time.Now()
		return res
	}
	defer resp.Body.Close()
	raw, err := io.ReadAll(resp.Body)
	res.End = time.Now()
	if err != nil {
		res.Err = err.Error()
	}
	res.Code, res.Header, res.Raw = resp.StatusCode, resp.Header, raw
	return res
}

func h32(b []byte) string {
	h := fnv.New32a()
	_, _ = h.Write(b)
	return fmt.Sprintf("%08x", h.Sum32())
}

var _ = testing.Short
