//go:build verif

package proc

// C08 — persisted entries survive eviction, restart and kill: never stale or corrupt.
// The real binary on a badger directory, killed (SIGKILL / SIGTERM) at generated
// points and restarted; history oracle over the clients' responses and the
// upstream's fetch log, sound under any timing.

import (
	"sort"
	"bytes"
	"compress/gzip"
	"fmt"
	"io"
	"math"
	"net/http"
	"os"
	"strconv"
	"strings"
	"sync"
	"sync/atomic"
	"testing"
	"time"

	"github.com/vicanso/pike/config"
	"github.com/vicanso/pike/store"
	"pgregory.net/rapid"

	"verif/harness/internal/vstat"
)

type c08Key struct {
	T    int  `json:"t"`    // lifetime in seconds, 0 = uncacheable
	Size int  `json:"size"` // body size
	Gzip bool `json:"gzip"` // client asks for gzip (compressible body above the threshold is stored compressed)
	Long bool `json:"long,omitempty"` // the URI carries 65 100 bytes of padding in front of what tells the keys apart
}

type c08Op struct {
	K   string `json:"k"` // get | burst | purge | sleep | kill | killburst | term
	Key int    `json:"key,omitempty"`
	N   int    `json:"n,omitempty"`
	Ms  int    `json:"ms,omitempty"`
}

type c08Scenario struct {
	Keys []c08Key `json:"keys"`
	Ops  []c08Op  `json:"ops"`
	// Two: a second server with its own cache, its own badger directory and its own upstream
	// answers the same Host and URIs (requests alternate between the two servers)
	Two bool `json:"two,omitempty"`
}

// The URIs of the keys differ only at their very end ("...&v=<case>-<key>"), and keys 10-19,
// 20-29, 30-39 share all parameters with key 1, 2, 3: the URI of key 1 is a proper prefix of
// those of keys 10-19, and so on. Long keys share their first 65 100+ bytes.

func genC08(t *rapid.T) c08Scenario {
	sc := c08Scenario{Two: rapid.IntRange(0, 9).Draw(t, "two") < 6}
	nk := rapid.IntRange(20, 40).Draw(t, "nKeys")
	for i := 0; i < nk; i++ {
		k := c08Key{T: rapid.SampledFrom([]int{0, 2, 3, 4, 6, 8, 8, 30}).Draw(t, "T"), Size: rapid.SampledFrom([]int{10, 200, 3000}).Draw(t, "size")}
		k.Gzip = rapid.Bool().Draw(t, "gzip")
		sc.Keys = append(sc.Keys, k)
	}
	for i := 10; i < nk; i++ {
		sc.Keys[i] = sc.Keys[i/10]
	}
	if rapid.IntRange(0, 3).Draw(t, "longKeys") == 0 {
		// two keys beyond what a badger key can hold, identical up to there
		sc.Keys[nk-1].Long, sc.Keys[nk-2].Long = true, true
		sc.Keys[nk-2].T, sc.Keys[nk-2].Size = sc.Keys[nk-1].T, sc.Keys[nk-1].Size
	}
	kills := 0
	maxKills := 2
	allowTerm := vstat.Tier() == "thorough"
	n := rapid.IntRange(8, 22).Draw(t, "nOps")
	sleepBudget := 6000
	for i := 0; i < n; i++ {
		switch rapid.IntRange(0, 12).Draw(t, "op") {
		case 0, 1, 2, 3:
			sc.Ops = append(sc.Ops, c08Op{K: "get", Key: rapid.IntRange(0, nk-1).Draw(t, "key")})
		case 4, 5:
			sc.Ops = append(sc.Ops, c08Op{K: "burst", Key: rapid.IntRange(0, nk-1).Draw(t, "from"), N: rapid.IntRange(8, nk).Draw(t, "n")})
		case 6:
			sc.Ops = append(sc.Ops, c08Op{K: "purge", Key: rapid.IntRange(0, nk-1).Draw(t, "key")})
		case 7:
			// the longer of two prefix-related URIs first, then the shorter one
			short := rapid.IntRange(1, 3).Draw(t, "short")
			if long := short*10 + rapid.IntRange(0, 9).Draw(t, "longer"); long < nk {
				sc.Ops = append(sc.Ops, c08Op{K: "get", Key: long}, c08Op{K: "get", Key: short})
			} else {
				sc.Ops = append(sc.Ops, c08Op{K: "get", Key: nk - 1}, c08Op{K: "get", Key: nk - 2})
			}
		case 8:
			ms := rapid.SampledFrom([]int{0, 200, 900, 1100, 2100, 3100}).Draw(t, "ms")
			if ms > sleepBudget {
				ms = 0
			}
			sleepBudget -= ms
			sc.Ops = append(sc.Ops, c08Op{K: "sleep", Ms: ms})
		case 9:
			if kills < maxKills {
				kills++
				sc.Ops = append(sc.Ops, c08Op{K: "kill"})
			}
		case 10:
			if kills < maxKills {
				kills++
				sc.Ops = append(sc.Ops, c08Op{K: "killburst", Key: rapid.IntRange(0, nk-1).Draw(t, "from"), N: rapid.IntRange(8, nk).Draw(t, "n"), Ms: rapid.IntRange(0, 50).Draw(t, "ms")})
			}
		case 11:
			if allowTerm && kills < maxKills {
				kills++
				sc.Ops = append(sc.Ops, c08Op{K: "term"})
			}
		case 12:
			// the instance is killed and the next one starts while something else still holds the
			// store directories (the previous process inside its close grace, a backup job): it
			// must start and serve, without persistence; a further kill and a restart on the free
			// directories follow
			if kills == 0 {
				kills += 2
				sc.Ops = append(sc.Ops, c08Op{K: "heldkill", Key: rapid.IntRange(0, nk-1).Draw(t, "from"), N: rapid.IntRange(8, nk).Draw(t, "n")})
			}
		}
	}
	if rapid.IntRange(0, 2).Draw(t, "prefixPurge") == 0 && nk > 13 {
		// both of two prefix-related keys are cached, the shorter one is purged, the memory is
		// flushed by a burst over all keys, and the longer one is asked for again
		short := rapid.IntRange(1, min(3, (nk-1)/10)).Draw(t, "ppShort")
		long := short*10 + rapid.IntRange(0, min(9, nk-1-short*10)).Draw(t, "ppLong")
		if long < nk {
			sc.Keys[short].T = 30
			for i := 10; i < nk; i++ {
				sc.Keys[i] = sc.Keys[i/10]
			}
			at := rapid.IntRange(0, len(sc.Ops)).Draw(t, "ppAt")
			macro := []c08Op{{K: "get", Key: long}, {K: "get", Key: short}, {K: "purge", Key: short}, {K: "burst", Key: 0, N: nk}, {K: "get", Key: long}, {K: "get", Key: short}}
			sc.Ops = append(sc.Ops[:at:at], append(macro, sc.Ops[at:]...)...)
		}
	}
	if kills == 0 {
		sc.Ops = append(sc.Ops, c08Op{K: "burst", Key: 0, N: nk}, c08Op{K: "kill"})
	}
	// after the last kill: look at everything again, then past the short lifetimes
	sc.Ops = append(sc.Ops, c08Op{K: "burst", Key: 0, N: nk}, c08Op{K: "sleep", Ms: 1200}, c08Op{K: "burst", Key: 0, N: nk})
	return sc
}

type c08Resp struct {
	Key     int
	Start   time.Time
	End     time.Time
	Err     string
	Code    int
	XStatus string
	Serial  string
	Age     string
	BodyOK  bool
	ReqID   string
	CE      string
	Epoch   int
	Srv     int
}

var (
	c08Once sync.Once
	c08Up   *echoUpstream
	c08UpB  *echoUpstream
)

var c08UpNames = [2]string{"U", "V"}

func c08URI(caseTag string, key int, k c08Key) string {
	typ := "text/plain"
	pad := ""
	if k.Long {
		pad = "&pad=" + strings.Repeat("p", 65100)
	}
	return fmt.Sprintf("/c08/%s/k?size=%d&type=%s&cc=%d%s&v=%s-%d", caseTag, k.Size, typ, k.T, pad, caseTag, key)
}

func execC08(sc c08Scenario) *vstat.Outcome { return execC08x(sc, false) }

// execC08x: judgeOtherKeys adds the oracle of C18's clause "other keys keep their entries"
func execC08x(sc c08Scenario, judgeOtherKeys bool) *vstat.Outcome {
	out := &vstat.Outcome{}
	c08Once.Do(func() { c08Up = newEchoUpstream("U"); c08UpB = newEchoUpstream("V") })
	dir, err := os.MkdirTemp("", "verif-c08-")
	if err != nil {
		out.Inconclusive = true
		return out
	}
	defer os.RemoveAll(dir)
	ports := freePorts(3)
	srvAddr := fmt.Sprintf("127.0.0.1:%d", ports[0])
	adminPort := ports[1]
	srvAddrs := [2]string{srvAddr, fmt.Sprintf("127.0.0.1:%d", ports[2])}
	cfg := &config.PikeConfig{
		Caches:    []config.CacheConfig{{Name: "c08", Size: 8, HitForPass: "2s", Store: "badger://" + dir + "/badger"}},
		Upstreams: []config.UpstreamConfig{{Name: "c08up", HealthCheck: "/health", Servers: []config.UpstreamServerConfig{{Addr: c08Up.URL()}}}},
		Locations: []config.LocationConfig{{Name: "c08loc", Upstream: "c08up"}},
		Servers:   []config.ServerConfig{{Addr: srvAddr, Locations: []string{"c08loc"}, Cache: "c08"}},
	}
	if sc.Two {
		cfg.Caches = append(cfg.Caches, config.CacheConfig{Name: "c08b", Size: 8, HitForPass: "2s", Store: "badger://" + dir + "/badger-b"})
		cfg.Upstreams = append(cfg.Upstreams, config.UpstreamConfig{Name: "c08upb", HealthCheck: "/health", Servers: []config.UpstreamServerConfig{{Addr: c08UpB.URL()}}})
		cfg.Locations = append(cfg.Locations, config.LocationConfig{Name: "c08locb", Upstream: "c08upb"})
		cfg.Servers = append(cfg.Servers, config.ServerConfig{Addr: srvAddrs[1], Locations: []string{"c08locb"}, Cache: "c08b"})
	}
	data, err := marshalConfig(cfg)
	if err != nil {
		out.Inconclusive = true
		return out
	}
	caseTag := fmt.Sprintf("%d-%d", os.Getpid(), time.Now().UnixNano()%100000000)
	var p *pikeProc
	epoch := 0
	var killTimes []time.Time // killTimes[i] = moment instance i was killed
	heldStores := 0
	start := func(first bool) bool {
		var cfgData []byte
		if first {
			cfgData = data
		}
		var err error
		p, err = startPike(dir, cfgData, adminPort)
		if err != nil {
			return false
		}
		t0 := time.Now()
		if !waitPort(srvAddr, 40*time.Second) {
			if !p.alive() {
				out.Violate("C08", "no-restart", "pike did not start on the existing store (exited); output: %v", tail(p.errorLines(), 6))
			} else {
				out.Violate("C08", "no-restart", "pike did not serve within 40 s after the restart; output: %v", tail(p.errorLines(), 6))
			}
			return false
		}
		_ = t0
		if sc.Two && !waitPort(srvAddrs[1], 40*time.Second) {
			out.Violate("C08", "no-restart", "the second server did not listen within 40 s; output: %v", tail(p.errorLines(), 6))
			return false
		}
		return true
	}
	if !start(true) {
		if len(out.Violations) == 0 {
			out.Inconclusive = true
		}
		return out
	}
	defer func() {
		if p != nil {
			p.kill()
		}
	}()
	cl := newHTTPClient()
	var mu sync.Mutex
	var resps []*c08Resp
	type purgeRec struct {
		Key        int
		Start, End time.Time
	}
	var purges []purgeRec
	var seq int64
	get := func(key int) {
		k := sc.Keys[key]
		srv := 0
		if sc.Two {
			srv = int(atomic.AddInt64(&seq, 1)+int64(key)) % 2
		}
		hdr := map[string]string{}
		if k.Gzip {
			hdr["Accept-Encoding"] = "gzip"
		}
		r := pget(cl, srvAddrs[srv], "c08.test", c08URI(caseTag, key, k), hdr)
		cr := &c08Resp{Key: key, Start: r.Start, End: r.End, Err: r.Err, Code: r.Code, ReqID: r.ReqID, Epoch: epoch, Srv: srv}
		if r.Err == "" {
			cr.XStatus, cr.Serial, cr.Age, cr.CE = r.Header.Get("X-Status"), r.Header.Get("X-Serial"), r.Header.Get("Age"), r.Header.Get("Content-Encoding")
			body := r.Raw
			if cr.CE == "gzip" {
				if zr, err := gzip.NewReader(bytes.NewReader(r.Raw)); err == nil {
					body, _ = io.ReadAll(zr)
				}
			}
			cr.BodyOK = bytes.Equal(body, echoBody(k.Size, fmt.Sprintf("%s-%d", caseTag, key))) && r.Header.Get("X-Upstream") == c08UpNames[srv] &&
				fmt.Sprint(r.Header.Values("Vary")) == "[Accept-Encoding, X-Client-Kind]" && fmt.Sprint(r.Header.Values("Last-Modified")) == "[Wed, 21 Oct 2015 07:28:00 GMT]" &&
				fmt.Sprint(r.Header.Values("Link")) == "[</a>; rel=preload </b>; rel=preload, </c>; rel=prefetch]" && r.Header.Get("Content-Type") == "text/plain" &&
				r.Header.Get("X-Echo-Path") == "/c08/"+caseTag+"/k" && strings.HasSuffix(r.Header.Get("X-Echo-Query"), fmt.Sprintf("&v=%s-%d", caseTag, key))
		}
		mu.Lock()
		resps = append(resps, cr)
		mu.Unlock()
	}
	burst := func(from, n int) *sync.WaitGroup {
		var wg sync.WaitGroup
		for i := 0; i < n; i++ {
			wg.Add(1)
			go func(key int) { defer wg.Done(); get(key) }((from + i) % len(sc.Keys))
		}
		return &wg
	}
	restart := func() bool {
		epoch++
		return start(false)
	}
	for _, op := range sc.Ops {
		switch op.K {
		case "get":
			get(op.Key % len(sc.Keys))
		case "burst":
			burst(op.Key, op.N).Wait()
		case "purge":
			key := op.Key % len(sc.Keys)
			cacheKey := "GET c08.test " + c08URI(caseTag, key, sc.Keys[key])
			req, _ := http.NewRequest("DELETE", "http://"+p.adminAdr+"/cache", nil)
			q := req.URL.Query()
			q.Set("key", cacheKey)
			req.URL.RawQuery = q.Encode()
			st := time.Now()
			resp, err := cl.Do(req)
			if err == nil {
				_, _ = io.Copy(io.Discard, resp.Body)
				resp.Body.Close()
				if resp.StatusCode == 204 {
					purges = append(purges, purgeRec{key, st, time.Now()})
				}
			}
		case "sleep":
			time.Sleep(time.Duration(op.Ms) * time.Millisecond)
		case "kill":
			killTimes = append(killTimes, time.Now())
			p.kill()
			if !restart() {
				return out
			}
		case "killburst":
			wg := burst(op.Key, op.N)
			time.Sleep(time.Duration(op.Ms) * time.Millisecond)
			killTimes = append(killTimes, time.Now())
			p.kill()
			wg.Wait()
			if !restart() {
				return out
			}
		case "heldkill":
			killTimes = append(killTimes, time.Now())
			p.kill()
			var held []store.Store
			for _, d := range []string{"/badger", "/badger-b"} {
				if _, err := os.Stat(dir + d); err != nil {
					continue
				}
				if st, err := store.NewStore("badger://" + dir + d); err == nil && st != nil {
					held = append(held, st)
				}
			}
			heldStores = len(held)
			ok := restart()
			if ok {
				burst(op.Key, op.N).Wait()
				burst(op.Key, op.N).Wait()
				killTimes = append(killTimes, time.Now())
				p.kill()
			}
			for _, st := range held {
				_ = st.Close()
			}
			if !ok || !restart() {
				return out
			}
		case "term":
			p.term()
			select {
			case <-p.exited:
			case <-time.After(20 * time.Second):
				out.Violate("C08", "no-stop", "pike did not exit within 20 s of SIGTERM")
				return out
			}
			killTimes = append(killTimes, time.Now())
			if !restart() {
				return out
			}
		}
	}
	// ---- history oracle
	var logs []echoLog
	bySerial := map[string]echoLog{}
	byReq := map[string]echoLog{}
	for ui, up := range []*echoUpstream{c08Up, c08UpB} {
		up.mu.Lock()
		ul := append([]echoLog{}, up.logs...)
		up.mu.Unlock()
		for _, l := range ul {
			if strings.Contains(l.URI, "/c08/"+caseTag+"/") {
				bySerial[c08UpNames[ui]+"-"+strconv.Itoa(l.Serial)] = l
				byReq[l.ReqID] = l
				logs = append(logs, l)
			}
		}
	}
	respByReq := map[string]*c08Resp{}
	for _, r := range resps {
		respByReq[r.ReqID] = r
	}
	// latest moment pike can have stamped the entry created by a fetch
	cmax := func(l echoLog) time.Time {
		inst := 0
		for i, kt := range killTimes {
			if l.At.After(kt) {
				inst = i + 1
			}
		}
		var t time.Time
		if r := respByReq[l.ReqID]; r != nil && r.Err == "" {
			t = r.End
		}
		if inst < len(killTimes) && (t.IsZero() || killTimes[inst].Before(t)) {
			t = killTimes[inst]
		}
		if t.IsZero() {
			t = time.Now()
		}
		return t
	}
	if heldStores > 0 {
		out.Class("restart_while_the_store_directories_are_held")
	}
	restoredHit, expiredRefetch := 0, 0
	hitsAfterKill := 0
	for _, r := range resps {
		if r.Err != "" {
			// killed mid-flight? (a request that overlaps no kill must be answered)
			overlaps := false
			for _, kt := range killTimes {
				if !kt.Before(r.Start.Add(-50*time.Millisecond)) && !kt.After(r.End.Add(50*time.Millisecond)) {
					overlaps = true
				}
			}
			if !overlaps {
				out.Violate("C08", "not-served", "request %s on key %d through server %d in instance %d failed although no instance was stopped while it ran: %s", r.ReqID, r.Key, r.Srv, r.Epoch, r.Err)
			}
			continue
		}
		k := sc.Keys[r.Key]
		what := fmt.Sprintf("request %s on key %d (T=%d) through server %d in instance %d", r.ReqID, r.Key, k.T, r.Srv, r.Epoch)
		if r.Code != 200 {
			out.Violate("C08", "status", "%s: status %d (X-Status %q)", what, r.Code, r.XStatus)
			continue
		}
		if !r.BodyOK {
			out.Violate("C08", "altered", "%s: body or end-to-end headers (Vary, Last-Modified, Link, Content-Type, echo headers) differ from what the upstream sends for this key (X-Status %q, Content-Encoding %q)", what, r.XStatus, r.CE)
		}
		_, contacted := byReq[r.ReqID]
		if contacted {
			if r.XStatus == "hit" {
				out.Violate("C03", "label", "%s reached the upstream but is labelled hit", what)
			}
			if src, ok := bySerial[r.Serial]; !ok || src.ReqID != r.ReqID {
				out.Violate("C08", "foreign-response", "%s went to the upstream but carries serial %s of another exchange", what, r.Serial)
			}
			continue
		}
		// served without contacting the upstream
		if r.XStatus != "hit" {
			out.Violate("C03", "label", "%s was answered without an upstream contact but is labelled %q", what, r.XStatus)
		}
		if k.T == 0 {
			out.Violate("C08", "uncacheable-hit", "%s: an uncacheable key was served from cache", what)
			continue
		}
		src, ok := bySerial[r.Serial]
		if !ok {
			out.Violate("C08", "unknown-serial", "%s: served from cache with serial %q which no upstream exchange of this case produced", what, r.Serial)
			continue
		}
		if !strings.HasPrefix(r.Serial, c08UpNames[r.Srv]+"-") {
			out.Violate("C08", "altered", "%s: served from cache the response %s, which was fetched through the other server (another cache with another store directory and another upstream)", what, r.Serial)
			continue
		}
		if !strings.HasSuffix(src.URI, fmt.Sprintf("&v=%s-%d", caseTag, r.Key)) {
			out.Violate("C06", "foreign-response", "%s: served the response fetched for %s", what, src.URI)
			continue
		}
		cm := cmax(src)
		if late := r.Start.Sub(cm).Seconds(); late >= float64(k.T+1) {
			out.Violate("C08", "stale", "%s: served from cache %.2fs after the latest moment the entry can have been created (lifetime %ds, fetch %s)", what, late, k.T, r.Serial)
		}
		age := 0
		if r.Age != "" {
			a, err := strconv.Atoi(r.Age)
			if err != nil {
				out.Violate("C08", "age", "%s: Age %q", what, r.Age)
			}
			age = a
		}
		lo := int(math.Floor(r.Start.Sub(cm).Seconds())) - 1
		hi := int(math.Ceil(r.End.Sub(src.At).Seconds())) + 1
		if age < lo || age > hi {
			out.Violate("C08", "age", "%s: Age %d outside [%d,%d] (time since the fetch %s)", what, age, lo, hi, r.Serial)
		}
		// purged before?
		for _, pr := range purges {
			if pr.Key == r.Key && r.Start.After(pr.End) {
				if fr := respByReq[src.ReqID]; fr != nil && fr.Err == "" && fr.End.Before(pr.Start) {
					out.Violate("C18", "purged-served", "%s: served from fetch %s which completed before the purge of this key returned", what, r.Serial)
				}
			}
		}
		// was the fetch made by an earlier instance?
		srcInst, curInst := 0, r.Epoch
		for i, kt := range killTimes {
			if src.At.After(kt) {
				srcInst = i + 1
			}
		}
		if srcInst < curInst {
			hitsAfterKill++
		}
		restoredHit++
	}
	if judgeOtherKeys {
		// C18: a purge of one key leaves the entries of the other keys alone. Within one instance
		// (no stop in between) a cacheable response that was fetched and delivered is served again
		// from memory or from the store while it is fresh; if, between that fetch and a later request
		// for the same key through the same server, only OTHER keys were purged, the later request
		// must not go back to the upstream. (Keys longer than a badger key are never persisted and
		// are left out; so are requests within 1.5 s of the expiry.)
		type fetchRec struct {
			end   time.Time
			epoch int
		}
		lastOK := map[[2]int]fetchRec{}
		ordered := append([]*c08Resp{}, resps...)
		sort.Slice(ordered, func(i, j int) bool { return ordered[i].Start.Before(ordered[j].Start) })
		for _, r := range ordered {
			if r.Err != "" || r.Code != 200 {
				continue
			}
			k := sc.Keys[r.Key]
			if k.T == 0 || k.Long {
				continue
			}
			id := [2]int{r.Srv, r.Key}
			_, contacted := byReq[r.ReqID]
			if !contacted {
				continue
			}
			if prev, ok := lastOK[id]; ok && prev.epoch == r.Epoch && r.Start.After(prev.end) && r.Start.Sub(prev.end).Seconds() < float64(k.T)-1.5 {
				ownPurge, otherPurge := false, -1
				for _, pr := range purges {
					if pr.End.After(prev.end) && pr.Start.Before(r.Start) {
						if pr.Key == r.Key {
							ownPurge = true
						} else {
							otherPurge = pr.Key
						}
					}
				}
				// another request of the same key may have been in flight (and fetched) in between: only
				// strictly sequential histories of this key are judged
				overlap := false
				for _, o := range ordered {
					if o != r && o.Key == r.Key && o.Srv == r.Srv && o.End.After(prev.end) && o.Start.Before(r.Start) {
						overlap = true
					}
				}
				if !ownPurge && otherPurge >= 0 && !overlap {
					out.Violate("C18", "other-key-lost", "key %d (lifetime %d s) was fetched and delivered through server %d, %.2f s later -- same instance, only key %d was purged in between -- a request for it went to the upstream again: the purge of another key took this key's entry with it (URIs: %q is a prefix of %q: %v)", r.Key, k.T, r.Srv, r.Start.Sub(prev.end).Seconds(), otherPurge, c08URI("T", otherPurge, sc.Keys[otherPurge]), c08URI("T", r.Key, k), strings.HasPrefix(c08URI("T", r.Key, k), c08URI("T", otherPurge, sc.Keys[otherPurge])))
				}
			}
			lastOK[id] = fetchRec{r.End, r.Epoch}
		}
	}
	// a request after a stored entry's expiry refetched
	lastFetch := map[int]echoLog{}
	for _, l := range logs {
		if !strings.Contains(l.URI, "/c08/"+caseTag+"/") {
			continue
		}
		for key := range sc.Keys {
			if strings.HasSuffix(l.URI, fmt.Sprintf("&v=%s-%d", caseTag, key)) {
				id := key
				if l.Name == c08UpNames[1] {
					id += 100000
				}
				if prev, ok := lastFetch[id]; ok && sc.Keys[key].T > 0 && l.At.Sub(prev.At).Seconds() >= float64(sc.Keys[key].T) {
					expiredRefetch++
				}
				lastFetch[id] = l
			}
		}
	}
	out.NonTrivial = hitsAfterKill > 0 && expiredRefetch > 0
	if hitsAfterKill > 0 {
		out.Class("hit_from_pre_kill_fetch")
	}
	if expiredRefetch > 0 {
		out.Class("refetch_after_expiry")
	}
	if len(purges) > 0 {
		out.Class("purged")
	}
	out.Class(fmt.Sprintf("kills_%d", len(killTimes)))
	for _, k := range sc.Keys {
		if k.Long {
			out.Class("keys_longer_than_a_badger_key")
			break
		}
	}
	if sc.Two {
		out.Class("two_servers_two_store_directories")
	}
	out.Evals = len(resps)
	return out
}

func TestC08(t *testing.T) {
	vstat.Run(t, "C08", "proc", genC08, execC08)
}

// TestC06Store: the same histories judged for C06 -- with a real badger store behind the
// caches, keys whose URI is a proper prefix of another key's URI, keys longer than a badger
// key can be, and a second cache on the same URLs, no request may ever be served a response
// produced for another (method, Host, URI)
func TestC06Store(t *testing.T) {
	vstat.Run(t, "C06", "proc", genC08, execC08)
}

// TestC18Store: the same histories judged for C18's clause "other keys keep their entries": real
// badger stores, keys whose URI is a proper prefix of another key's URI, purges through the
// admin API, evictions from an 8-entry memory
func TestC18Store(t *testing.T) {
	vstat.Run(t, "C18", "proc", genC08, func(sc c08Scenario) *vstat.Outcome { return execC08x(sc, true) })
}
