//go:build verif

package unit

// C14 — routing picks a matching location of the best specificity class.

import (
	"fmt"
	"strings"
	"testing"

	"github.com/vicanso/pike/location"
	"pgregory.net/rapid"

	"verif/harness/internal/vstat"
)

type c14Loc struct {
	Name     string   `json:"name"`
	Hosts    []string `json:"hosts,omitempty"`
	Prefixes []string `json:"prefixes,omitempty"`
}

type c14Scenario struct {
	Locs  []c14Loc `json:"locs"`
	Names []string `json:"names"`
	Host  string   `json:"host"`
	URI   string   `json:"uri"`
}

func c14Class(l c14Loc) int {
	switch {
	case len(l.Prefixes) != 0 && len(l.Hosts) != 0:
		return 0
	case len(l.Prefixes) != 0:
		return 1
	case len(l.Hosts) != 0:
		return 2
	}
	return 3
}

func c14Matches(l c14Loc, names []string, host, uri string) bool {
	listed := false
	for _, n := range names {
		if n == l.Name {
			listed = true
		}
	}
	if !listed {
		return false
	}
	if len(l.Hosts) != 0 {
		ok := false
		for _, h := range l.Hosts {
			if h == host {
				ok = true
			}
		}
		if !ok {
			return false
		}
	}
	if len(l.Prefixes) != 0 {
		ok := false
		for _, p := range l.Prefixes {
			if strings.HasPrefix(uri, p) {
				ok = true
			}
		}
		if !ok {
			return false
		}
	}
	return true
}

type c14Result struct {
	viol, nontrivial bool
	msg              string
}

// check one lookup against the reference; ls is built by the caller (reused across requests)
func c14Check(ls *location.Locations, idx map[*location.Location]int, sc *c14Scenario) c14Result {
	got := ls.Get(sc.Host, sc.URI, sc.Names...)
	best := 4
	classes := map[int]bool{}
	nMatch := 0
	for _, l := range sc.Locs {
		if c14Matches(l, sc.Names, sc.Host, sc.URI) {
			nMatch++
			c := c14Class(l)
			classes[c] = true
			if c < best {
				best = c
			}
		}
	}
	res := c14Result{}
	otherWouldMatch := false
	if nMatch == 0 {
		for _, l := range sc.Locs {
			all := []string{l.Name}
			if c14Matches(l, all, sc.Host, sc.URI) {
				otherWouldMatch = true
			}
		}
	}
	res.nontrivial = (nMatch >= 2 && len(classes) >= 2) || (nMatch == 0 && otherWouldMatch)
	if nMatch == 0 {
		if got != nil {
			res.viol, res.msg = true, fmt.Sprintf("no listed location matches host %q uri %q (names %v) but %q was chosen", sc.Host, sc.URI, sc.Names, got.Name)
		}
		return res
	}
	if got == nil {
		res.viol, res.msg = true, fmt.Sprintf("%d listed location(s) match host %q uri %q but none was chosen", nMatch, sc.Host, sc.URI)
		return res
	}
	i, ok := idx[got]
	if !ok {
		res.viol, res.msg = true, "the chosen location is not one of the configured ones"
		return res
	}
	chosen := sc.Locs[i]
	if !c14Matches(chosen, sc.Names, sc.Host, sc.URI) {
		res.viol, res.msg = true, fmt.Sprintf("chosen location %q (hosts %v prefixes %v) does not match host %q uri %q with names %v", chosen.Name, chosen.Hosts, chosen.Prefixes, sc.Host, sc.URI, sc.Names)
		return res
	}
	if c14Class(chosen) != best {
		res.viol, res.msg = true, fmt.Sprintf("chosen location %q has specificity class %d but a matching location of class %d exists (host %q uri %q)", chosen.Name, c14Class(chosen), best, sc.Host, sc.URI)
	}
	return res
}

func c14Build(locs []c14Loc) (*location.Locations, map[*location.Location]int) {
	opts := make([]location.Location, len(locs))
	for i, l := range locs {
		opts[i] = location.Location{Name: l.Name, Upstream: "u", Hosts: l.Hosts, Prefixes: l.Prefixes}
	}
	ls := location.NewLocations(opts...)
	idx := map[*location.Location]int{}
	for i := range opts {
		idx[&opts[i]] = i
	}
	return ls, idx
}

func execC14(sc c14Scenario) *vstat.Outcome {
	out := &vstat.Outcome{}
	ls, idx := c14Build(sc.Locs)
	r := c14Check(ls, idx, &sc)
	if r.viol {
		out.Violate("C14", "routing", "%s", r.msg)
	}
	out.NonTrivial = r.nontrivial
	return out
}

func subsets(items []string) [][]string {
	var res [][]string
	for m := 0; m < 1<<len(items); m++ {
		var s []string
		for i, it := range items {
			if m&(1<<i) != 0 {
				s = append(s, it)
			}
		}
		res = append(res, s)
	}
	return res
}

// TestC14Exhaustive enumerates every configuration of up to 3 locations over a
// small universe (thorough: 4 locations over a reduced universe)
func TestC14Exhaustive(t *testing.T) {
	rec := vstat.For("C14", t.Name(), "unit")
	if vstat.ReplayOne(t, rec, execC14) {
		return
	}
	hosts := subsets([]string{"a.test", "b.test"})
	prefixes := subsets([]string{"/a", "/a/b", "/b"})
	var shapes []c14Loc
	for _, h := range hosts {
		for _, p := range prefixes {
			shapes = append(shapes, c14Loc{Hosts: h, Prefixes: p})
		}
	}
	reqHosts := []string{"a.test", "b.test", "c.test"}
	reqURIs := []string{"/a/x", "/a/b/x", "/b", "/c", "/ab", "/a?x=/b"}
	var lookups, nontrivial, configs int64
	run := func(shapeIdx []int, shapeSet []c14Loc) bool {
		locs := make([]c14Loc, len(shapeIdx))
		for i, si := range shapeIdx {
			locs[i] = shapeSet[si]
			locs[i].Name = fmt.Sprintf("l%d", i)
		}
		ls, idx := c14Build(locs)
		configs++
		allNames := make([]string, len(locs))
		for i := range locs {
			allNames[i] = locs[i].Name
		}
		for _, names := range subsets(allNames) {
			for _, h := range reqHosts {
				for _, u := range reqURIs {
					sc := c14Scenario{Locs: locs, Names: names, Host: h, URI: u}
					r := c14Check(ls, idx, &sc)
					lookups++
					if r.nontrivial {
						nontrivial++
					}
					if r.viol {
						out := &vstat.Outcome{NonTrivial: true}
						out.Violate("C14", "routing", "%s", r.msg)
						vstat.RunOne(t, rec, sc, out)
						return false
					}
				}
			}
		}
		return true
	}
	n := len(shapes)
	for a := 0; a < n; a++ {
		if !run([]int{a}, shapes) {
			return
		}
		for b := 0; b < n; b++ {
			if !run([]int{a, b}, shapes) {
				return
			}
			for c := 0; c < n; c++ {
				if !run([]int{a, b, c}, shapes) {
					return
				}
			}
		}
	}
	if vstat.Tier() == "thorough" {
		// 4 locations over a reduced universe (1 host, 2 prefixes -> 8 shapes... use 2 hosts subsets x 2 prefixes subsets = 16)
		var small []c14Loc
		for _, h := range subsets([]string{"a.test", "b.test"}) {
			for _, p := range subsets([]string{"/a", "/a/b"}) {
				small = append(small, c14Loc{Hosts: h, Prefixes: p})
			}
		}
		m := len(small)
		for a := 0; a < m; a++ {
			for b := 0; b < m; b++ {
				for c := 0; c < m; c++ {
					for d := 0; d < m; d++ {
						if !run([]int{a, b, c, d}, small) {
							return
						}
					}
				}
			}
		}
	}
	// book the enumeration as one aggregated record per run (cells are far too many to list)
	out := &vstat.Outcome{NonTrivial: true, Evals: int(lookups), Sig: "exhaustive"}
	sample := map[string]interface{}{"universe": map[string]interface{}{"hosts": []string{"a.test", "b.test"}, "prefixes": []string{"/a", "/a/b", "/b"}, "request_hosts": reqHosts, "request_uris": reqURIs},
		"configs": configs, "lookups": lookups, "nontrivial_lookups": nontrivial}
	vstat.RunOne(t, rec, sample, out)
	rec.SetExtra("distinct_counted", nontrivial)
	rec.SetExtra("exhaustive_configs", configs)
	rec.SetExtra("exhaustive_lookups", lookups)
	rec.SetExtra("exhaustive_nontrivial_lookups", nontrivial)
	rec.AddClass("nontrivial_lookup", nontrivial)
}

func genC14(t *rapid.T) c14Scenario {
	hostPool := []string{"a.test", "b.test", "c.test", "www.a.test", "A.test"}
	prefixPool := []string{"/", "/a", "/a/", "/a/b", "/b", "/api", "/ap"}
	n := rapid.IntRange(1, 8).Draw(t, "nLocs")
	sc := c14Scenario{}
	for i := 0; i < n; i++ {
		l := c14Loc{Name: fmt.Sprintf("l%d", rapid.IntRange(0, 9).Draw(t, "name"))}
		nh := rapid.IntRange(0, 3).Draw(t, "nHosts")
		for j := 0; j < nh; j++ {
			l.Hosts = append(l.Hosts, rapid.SampledFrom(hostPool).Draw(t, "host"))
		}
		np := rapid.IntRange(0, 3).Draw(t, "nPrefixes")
		for j := 0; j < np; j++ {
			l.Prefixes = append(l.Prefixes, rapid.SampledFrom(prefixPool).Draw(t, "prefix"))
		}
		sc.Locs = append(sc.Locs, l)
	}
	nn := rapid.IntRange(0, 6).Draw(t, "nNames")
	for i := 0; i < nn; i++ {
		sc.Names = append(sc.Names, fmt.Sprintf("l%d", rapid.IntRange(0, 10).Draw(t, "listed")))
	}
	sc.Host = rapid.SampledFrom(append(hostPool, "other.test")).Draw(t, "reqHost")
	sc.URI = rapid.SampledFrom([]string{"/", "/a", "/a/x", "/a/b/c?q=1", "/b", "/api/v1?x=/a", "/apx", "/c", "/ab"}).Draw(t, "reqURI")
	return sc
}

func TestC14Random(t *testing.T) {
	vstat.Run(t, "C14", "unit", genC14, execC14)
}
