//go:build verif

package unit

// C14 through the configuration path: locations are given as configuration
// entries (unique names, host names in any case, prefixes including "/"),
// loaded with location.Reset -- the conversion every reload runs -- and looked up
// through the package-level registry, as the proxy does.

import (
	"fmt"
	"testing"

	"github.com/vicanso/pike/config"
	"github.com/vicanso/pike/location"
	"pgregory.net/rapid"

	"verif/harness/internal/vstat"
)

type c14Cfg struct {
	Locs  []c14Loc `json:"locs"`
	Names []string `json:"names"`
	Reqs  [][2]string `json:"reqs"` // host, uri
	// Rewrites[i]: rewrite rules of location i; routing does not depend on them, whether they compile or not
	Rewrites [][]string `json:"rewrites,omitempty"`
}

func genC14Cfg(t *rapid.T) c14Cfg {
	hostPool := []string{"a.test", "b.test", "A.test", "Shop.B.test", "www.a.test"}
	prefixPool := []string{"/", "/", "/a", "/a/", "/a/b", "/b", "/api"}
	n := rapid.IntRange(1, 6).Draw(t, "nLocs")
	sc := c14Cfg{}
	for i := 0; i < n; i++ {
		l := c14Loc{Name: fmt.Sprintf("l%d", i)}
		nh := rapid.IntRange(0, 2).Draw(t, "nHosts")
		for j := 0; j < nh; j++ {
			l.Hosts = append(l.Hosts, rapid.SampledFrom(hostPool).Draw(t, "host"))
		}
		np := rapid.IntRange(0, 2).Draw(t, "nPrefixes")
		for j := 0; j < np; j++ {
			l.Prefixes = append(l.Prefixes, rapid.SampledFrom(prefixPool).Draw(t, "prefix"))
		}
		sc.Locs = append(sc.Locs, l)
		var rw []string
		for j := rapid.IntRange(0, 2).Draw(t, "nRewrites"); j > 0; j-- {
			// rules of the accepted a:b shape; some are no regular expressions (pike logs and ignores those)
			rw = append(rw, rapid.SampledFrom([]string{"/a/*:/$1", "^/api/(v1|v2)/*:/$1/$2", "^/api/(v1|v2/*:/$1", "/x[/*:/y", "/b/*:/c/$1"}).Draw(t, "rewrite"))
		}
		sc.Rewrites = append(sc.Rewrites, rw)
		if rapid.IntRange(0, 3).Draw(t, "listed") > 0 {
			sc.Names = append(sc.Names, l.Name)
		}
	}
	m := rapid.IntRange(2, 8).Draw(t, "nReqs")
	for i := 0; i < m; i++ {
		sc.Reqs = append(sc.Reqs, [2]string{rapid.SampledFrom(append(hostPool, "other.test", "shop.b.test")).Draw(t, "reqHost"),
			rapid.SampledFrom([]string{"/", "/a", "/a/x", "/a/b/c?q=1", "/b", "/api/v1?x=/a", "/apx", "/c", "/index.html"}).Draw(t, "reqURI")})
	}
	return sc
}

func execC14Cfg(sc c14Cfg) *vstat.Outcome {
	out := &vstat.Outcome{}
	var cfgs []config.LocationConfig
	for i, l := range sc.Locs {
		lc := config.LocationConfig{Name: l.Name, Upstream: "u", Hosts: l.Hosts, Prefixes: l.Prefixes}
		if i < len(sc.Rewrites) {
			lc.Rewrites = sc.Rewrites[i]
		}
		cfgs = append(cfgs, lc)
	}
	location.Reset(cfgs)
	byName := map[string]c14Loc{}
	for _, l := range sc.Locs {
		byName[l.Name] = l
	}
	for _, rq := range sc.Reqs {
		host, uri := rq[0], rq[1]
		// the caller's list (a server's configured location names) is the caller's: handed over as
		// it is, as the proxy middleware does, and it must come back unchanged
		names := append([]string{}, sc.Names...)
		got := location.Get(host, uri, names...)
		if fmt.Sprint(names) != fmt.Sprint(sc.Names) {
			out.Violate("C14", "caller-list-altered", "host %q uri %q: the lookup changed the list of location names it was given from %v to %v (the proxy hands over the server's own list: later requests of that server are routed by the altered list)", host, uri, sc.Names, names)
			return out
		}
		best, nMatch := 4, 0
		classes := map[int]bool{}
		for _, l := range sc.Locs {
			if c14Matches(l, sc.Names, host, uri) {
				nMatch++
				classes[c14Class(l)] = true
				if c := c14Class(l); c < best {
					best = c
				}
			}
		}
		if nMatch >= 2 && len(classes) >= 2 {
			out.NonTrivial = true
		}
		what := fmt.Sprintf("host %q uri %q, listed %v, locations %+v", host, uri, sc.Names, sc.Locs)
		switch {
		case nMatch == 0 && got != nil:
			out.Violate("C14", "routing", "%s: no listed location matches but %q was chosen", what, got.Name)
		case nMatch > 0 && got == nil:
			out.Violate("C14", "routing", "%s: %d listed location(s) match but none was chosen", what, nMatch)
		case got != nil:
			chosen, ok := byName[got.Name]
			switch {
			case !ok:
				out.Violate("C14", "routing", "%s: the chosen location %q is not configured", what, got.Name)
			case !c14Matches(chosen, sc.Names, host, uri):
				out.Violate("C14", "routing", "%s: the chosen location %q does not match or is not listed", what, got.Name)
			case c14Class(chosen) != best:
				out.Violate("C14", "routing", "%s: the chosen location %q is of class %d, a listed matching location of class %d exists", what, got.Name, c14Class(chosen), best)
			}
		}
	}
	out.Evals = len(sc.Reqs)
	return out
}

func TestC14Config(t *testing.T) {
	vstat.Run(t, "C14", "unit", genC14Cfg, execC14Cfg)
}
