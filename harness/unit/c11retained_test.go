//go:build verif

package unit

// C11 (what stays reachable) — "the number of keys held in memory never
// exceeds S": the shards' own counters (VerifLen) say what the LRU believes it
// holds; this check asks the garbage collector instead. N > S distinct keys are
// fetched and stored the way the cache middleware does it (get-or-create the
// entry, Get, Cacheable with a generated lifetime), every response carries a
// finalizer, and after the history at most S responses (plus a small slack for
// stale stack slots) may still be reachable.

import (
	"fmt"
	"runtime"
	"sync"
	"sync/atomic"
	"testing"
	"time"

	"github.com/vicanso/pike/cache"
	"github.com/vicanso/pike/store"
	"pgregory.net/rapid"

	"verif/harness/internal/vstat"
)

type c11Retained struct {
	Size   int  `json:"size"`
	Keys   int  `json:"keys"`
	TTL    int  `json:"ttl"`
	Body   int  `json:"body"`
	Store  bool `json:"store,omitempty"`
	HFPPct int  `json:"hfpPct,omitempty"` // share of the keys whose fetch ends uncacheable
	Purge  int  `json:"purge,omitempty"`  // every Purge-th key is purged right after it was stored (0 = never)
}

func genC11Retained(t *rapid.T) c11Retained {
	s := rapid.SampledFrom([]int{1, 3, 8, 9, 16, 40, 64, 100}).Draw(t, "size")
	return c11Retained{
		Size:   s,
		Keys:   s + rapid.SampledFrom([]int{40, 200, 800}).Draw(t, "extra"),
		TTL:    rapid.SampledFrom([]int{30, 300, 3600, 86400}).Draw(t, "ttl"),
		Body:   rapid.SampledFrom([]int{10, 600, 5000}).Draw(t, "body"),
		Store:  rapid.Bool().Draw(t, "store"),
		HFPPct: rapid.SampledFrom([]int{0, 0, 20}).Draw(t, "hfpPct"),
		Purge:  rapid.SampledFrom([]int{0, 0, 7}).Draw(t, "purge"),
	}
}

var c11rSeq int64

const c11rSlack = 4

func execC11Retained(sc c11Retained) *vstat.Outcome {
	out := &vstat.Outcome{}
	seq := atomic.AddInt64(&c11rSeq, 1)
	opt := cache.DispatcherOption{Name: fmt.Sprintf("c11r-%d", seq), Size: sc.Size, HitForPass: 300}
	if sc.Store {
		url := fmt.Sprintf("verifmem://c11r-%d", seq)
		store.VerifRegisterStore(url, newMapStore())
		defer store.VerifUnregisterStore(url)
		opt.Store = url
	}
	d := cache.NewDispatcher(opt)
	var freed, made int64
	func() {
		for i := 0; i < sc.Keys; i++ {
			key := []byte(fmt.Sprintf("GET c11r.test /%d/k%d", seq, i))
			hc := d.GetHTTPCache(key)
			if status, _ := hc.Get(); status != cache.StatusFetching {
				out.Violate("C11", "harness", "key %d: status %v on a new key", i, status)
				return
			}
			if sc.HFPPct > 0 && i%100 < sc.HFPPct {
				hc.HitForPass(300)
				continue
			}
			resp := &cache.HTTPResponse{StatusCode: 200, RawBody: make([]byte, sc.Body)}
			resp.Header = map[string][]string{"Content-Type": {"image/png"}}
			runtime.SetFinalizer(resp, func(*cache.HTTPResponse) { atomic.AddInt64(&freed, 1) })
			atomic.AddInt64(&made, 1)
			hc.Cacheable(resp, sc.TTL)
			if sc.Purge > 0 && i%sc.Purge == 0 {
				d.RemoveHTTPCache(key)
			}
		}
	}()
	if len(out.Violations) > 0 {
		return out
	}
	resident := 0
	for _, n := range d.VerifLen() {
		resident += n
	}
	// let the collector find what is unreachable
	live := int64(0)
	deadline := time.Now().Add(6 * time.Second)
	for {
		runtime.GC()
		time.Sleep(5 * time.Millisecond)
		live = atomic.LoadInt64(&made) - atomic.LoadInt64(&freed)
		if live <= int64(sc.Size) || time.Now().After(deadline) {
			break
		}
	}
	if live > int64(sc.Size+c11rSlack) {
		out.Violate("C11", "reachable-beyond-size", "cache of size %d (store %v), %d distinct keys stored with a lifetime of %d s: the shards report %d resident keys, but %d stored responses are still reachable after repeated garbage collections (%d were created): entries the LRU dropped are still held in memory",
			sc.Size, sc.Store, sc.Keys, sc.TTL, resident, live, made)
	}
	runtime.KeepAlive(d)
	out.NonTrivial = sc.Keys > sc.Size
	out.Evals = sc.Keys
	if sc.Store {
		out.Class("with_store")
	}
	return out
}

func TestC11Retained(t *testing.T) {
	vstat.Run(t, "C11", "unit", genC11Retained, execC11Retained)
}

// mapStore: a plain in-memory store (copies what it is given)
type mapStore struct {
	mu sync.Mutex
	m  map[string][]byte
}

func newMapStore() *mapStore { return &mapStore{m: map[string][]byte{}} }

func (s *mapStore) Get(key []byte) ([]byte, error) {
	s.mu.Lock()
	defer s.mu.Unlock()
	v, ok := s.m[string(key)]
	if !ok {
		return nil, store.ErrNotFound
	}
	return append([]byte{}, v...), nil
}

func (s *mapStore) Set(key []byte, data []byte, ttl time.Duration) error {
	s.mu.Lock()
	defer s.mu.Unlock()
	s.m[string(key)] = append([]byte{}, data...)
	return nil
}

func (s *mapStore) Delete(key []byte) error {
	s.mu.Lock()
	defer s.mu.Unlock()
	delete(s.m, string(key))
	return nil
}

func (s *mapStore) Close() error { return nil }
