//go:build verif

package unit

// C11 (reload histories) — the bound also holds across configuration reloads
// of the cache list: a reload may keep the original size (documented: the size
// of an existing cache is a restart-only setting) or apply the new one, but the
// resident count may never exceed the largest size ever configured for that
// cache name.

import (
	"fmt"
	"testing"

	"github.com/vicanso/pike/cache"
	"pgregory.net/rapid"

	"verif/harness/internal/vstat"
)

type c11ReloadStep struct {
	Size    int  `json:"size"`    // size given for the cache in this reload
	Drop    bool `json:"drop"`    // the cache is absent from this reload (removed; a later reload re-creates it)
	Inserts int  `json:"inserts"` // distinct new keys requested after the reload
}

type c11ReloadScenario struct {
	Steps []c11ReloadStep `json:"steps"`
}

func genC11Reload(t *rapid.T) c11ReloadScenario {
	sizes := []int{1, 3, 5, 7, 8, 9, 64, 100, 512, 1000, 1023, 1024, 1025, 2048, 4096}
	n := rapid.IntRange(2, 5).Draw(t, "steps")
	sc := c11ReloadScenario{}
	for i := 0; i < n; i++ {
		sc.Steps = append(sc.Steps, c11ReloadStep{
			Size:    rapid.SampledFrom(sizes).Draw(t, "size"),
			Drop:    i > 0 && rapid.IntRange(0, 7).Draw(t, "drop") == 0,
			Inserts: rapid.SampledFrom([]int{0, 10, 600, 3000, 9000, 20000}).Draw(t, "inserts"),
		})
	}
	return sc
}

func execC11Reload(sc c11ReloadScenario) *vstat.Outcome {
	out := &vstat.Outcome{}
	ds := cache.NewDispatchers(nil)
	maxSize := 0
	created := false
	keySeq := 0
	shrinkAcross := false
	prevSize := 0
	for i, st := range sc.Steps {
		opts := []cache.DispatcherOption{{Name: "other", Size: 10}}
		if !st.Drop {
			opts = append(opts, cache.DispatcherOption{Name: "c11", Size: st.Size})
		}
		ds.Reset(opts)
		if st.Drop {
			created = false
			maxSize = 0
			continue
		}
		if !created {
			created = true
			maxSize = 0
		}
		if st.Size > maxSize {
			maxSize = st.Size
		}
		if prevSize >= 1024 && st.Size < 1024 {
			shrinkAcross = true
		}
		prevSize = st.Size
		d := ds.Get("c11")
		if d == nil {
			out.Violate("C11", "missing", "step %d: the cache is configured but not registered", i)
			return out
		}
		for j := 0; j < st.Inserts; j++ {
			keySeq++
			d.GetHTTPCache([]byte(fmt.Sprintf("GET reload.test /k%d", keySeq)))
			if j%500 == 499 || j == st.Inserts-1 {
				total := 0
				for _, n := range d.VerifLen() {
					total += n
				}
				if total > maxSize {
					out.Violate("C11", "bound-after-reload", "step %d (size %d in this reload, largest size ever configured for this cache %d): %d keys are resident", i, st.Size, maxSize, total)
					return out
				}
			}
		}
	}
	out.NonTrivial = len(sc.Steps) >= 2 && keySeq > 0
	if shrinkAcross {
		out.Class("size_lowered_across_1024")
	}
	return out
}

func TestC11Reload(t *testing.T) {
	vstat.Run(t, "C11", "unit", genC11Reload, execC11Reload)
}
