//go:build verif

package unit

// C11 (reload histories) — the bound also holds across configuration reloads
// of the cache list: a reload may keep the original size (documented: the size
// of an existing cache is a restart-only setting) or apply the new one, but the
// resident count may never exceed the largest size configured for that cache
// name since it was last created. Up to three caches come and go, singly or
// several in one reload.

import (
	"fmt"
	"testing"

	"github.com/vicanso/pike/cache"
	"pgregory.net/rapid"

	"verif/harness/internal/vstat"
)

type c11ReloadCache struct {
	Size int  `json:"size"` // size given for the cache in this reload
	Drop bool `json:"drop"` // the cache is absent from this reload (removed; a later reload re-creates it)
}

type c11ReloadStep struct {
	Caches  []c11ReloadCache `json:"caches"`
	Inserts int              `json:"inserts"` // distinct new keys requested from each configured cache after the reload
	// legacy single-cache form (replay files of earlier rounds)
	Size int  `json:"size,omitempty"`
	Drop bool `json:"drop,omitempty"`
}

type c11ReloadScenario struct {
	Steps []c11ReloadStep `json:"steps"`
}

func genC11Reload(t *rapid.T) c11ReloadScenario {
	sizes := []int{1, 3, 5, 7, 8, 9, 64, 100, 512, 1000, 1023, 1024, 1025, 2048, 4096}
	n := rapid.IntRange(2, 5).Draw(t, "steps")
	nc := rapid.SampledFrom([]int{1, 2, 3, 3}).Draw(t, "caches")
	dropAll := rapid.IntRange(0, 2).Draw(t, "dropAll") == 0
	sc := c11ReloadScenario{}
	for i := 0; i < n; i++ {
		st := c11ReloadStep{Inserts: rapid.SampledFrom([]int{0, 10, 600, 3000, 9000, 20000}).Draw(t, "inserts")}
		all := dropAll && i > 0 && i < n-1 && rapid.IntRange(0, 2).Draw(t, "all") == 0
		for c := 0; c < nc; c++ {
			st.Caches = append(st.Caches, c11ReloadCache{
				Size: rapid.SampledFrom(sizes).Draw(t, "size"),
				Drop: all || (i > 0 && rapid.IntRange(0, 7).Draw(t, "drop") == 0),
			})
		}
		if nc > 1 && st.Inserts > 9000 {
			st.Inserts = 9000
		}
		sc.Steps = append(sc.Steps, st)
	}
	return sc
}

func execC11Reload(sc c11ReloadScenario) *vstat.Outcome {
	out := &vstat.Outcome{}
	ds := cache.NewDispatchers(nil)
	maxSize := map[int]int{}
	created := map[int]bool{}
	prevSize := map[int]int{}
	keySeq := 0
	shrinkAcross, recreatedSmaller, droppedTogether := false, false, false
	lastMax := map[int]int{}
	for i, st := range sc.Steps {
		if len(st.Caches) == 0 {
			st.Caches = []c11ReloadCache{{Size: st.Size, Drop: st.Drop}}
		}
		opts := []cache.DispatcherOption{{Name: "other", Size: 10}}
		dropped := 0
		for c, cc := range st.Caches {
			if !cc.Drop {
				opts = append(opts, cache.DispatcherOption{Name: fmt.Sprintf("c11-%d", c), Size: cc.Size})
			} else if created[c] {
				dropped++
			}
		}
		if dropped >= 2 {
			droppedTogether = true
		}
		ds.Reset(opts)
		for c, cc := range st.Caches {
			name := fmt.Sprintf("c11-%d", c)
			if cc.Drop {
				if created[c] {
					lastMax[c] = maxSize[c]
				}
				created[c] = false
				maxSize[c] = 0
				prevSize[c] = 0
				if ds.Get(name) != nil && i > 0 {
					// not part of the bound, but what the next oracle builds on
					out.Class("dropped_cache_still_registered")
				}
				continue
			}
			if !created[c] {
				created[c] = true
				maxSize[c] = 0
				if lastMax[c] > cc.Size {
					recreatedSmaller = true
				}
			}
			if cc.Size > maxSize[c] {
				maxSize[c] = cc.Size
			}
			if prevSize[c] >= 1024 && cc.Size < 1024 {
				shrinkAcross = true
			}
			prevSize[c] = cc.Size
			d := ds.Get(name)
			if d == nil {
				out.Violate("C11", "missing", "step %d: cache %s is configured but not registered", i, name)
				return out
			}
			for j := 0; j < st.Inserts; j++ {
				keySeq++
				d.GetHTTPCache([]byte(fmt.Sprintf("GET reload.test /k%d", keySeq)))
				if j%500 == 499 || j == st.Inserts-1 {
					total := 0
					for _, n := range d.VerifLen() {
						total += n
					}
					if total > maxSize[c] {
						out.Violate("C11", "bound-after-reload", "step %d, cache %s (size %d in this reload, largest size configured for this cache since it was created %d): %d keys are resident", i, name, cc.Size, maxSize[c], total)
						return out
					}
				}
			}
		}
	}
	out.NonTrivial = len(sc.Steps) >= 2 && keySeq > 0
	if shrinkAcross {
		out.Class("size_lowered_across_1024")
	}
	if recreatedSmaller {
		out.Class("recreated_with_a_smaller_size")
	}
	if droppedTogether {
		out.Class("two_caches_dropped_in_one_reload")
	}
	return out
}

func TestC11Reload(t *testing.T) {
	vstat.Run(t, "C11", "unit", genC11Reload, execC11Reload)
}
