//go:build verif

package unit

// C09 — the persistence format round-trips exactly and rejects garbage safely.

import (
	"bytes"
	"encoding/binary"
	"fmt"
	"net/http"
	"net/http/httptest"
	"reflect"
	"regexp"
	"runtime"
	"sort"
	"strings"
	"testing"
	"unicode/utf8"

	"github.com/vicanso/elton"
	"github.com/vicanso/pike/cache"
	"pgregory.net/rapid"

	"verif/harness/internal/vstat"
)

type c09Header struct {
	Name   string   `json:"name"`
	Values []string `json:"values"`
}

type c09Entry struct {
	Status      int         `json:"status"`
	CreatedAt   int64       `json:"createdAt"`
	ExpiredAt   int64       `json:"expiredAt"`
	HasResp     bool        `json:"hasResp"`
	CompressSrv string      `json:"compressSrv,omitempty"`
	MinLength   int         `json:"minLength,omitempty"`
	Filter      string      `json:"filter,omitempty"`
	Headers     []c09Header `json:"headers,omitempty"`
	StatusCode  int         `json:"statusCode,omitempty"`
	Raw         []byte      `json:"raw,omitempty"`
	Gzip        []byte      `json:"gzip,omitempty"`
	Br          []byte      `json:"br,omitempty"`
}

var c09Filters = []string{"", "text|json", `^application/(json|xml)$`, `image/.+`, `(?i)TEXT`, `a{2,5}b*`, `[^\x00-\x7f]+`}

func genBody(t *rapid.T, label string, thorough bool) []byte {
	sizes := []int{0, 0, 1, 2, 7, 64, 1023, 1024, 1025, 4096, 65536}
	if thorough {
		sizes = append(sizes, 1<<20, 4<<20)
	}
	n := rapid.SampledFrom(sizes).Draw(t, label+"Len")
	if n == 0 {
		return nil
	}
	seed := rapid.Uint32().Draw(t, label+"Seed")
	kind := rapid.IntRange(0, 2).Draw(t, label+"Kind")
	b := make([]byte, n)
	x := uint64(seed)*2862933555777941757 + 3037000493
	for i := range b {
		switch kind {
		case 0:
			x = x*2862933555777941757 + 3037000493
			b[i] = byte(x >> 56)
		case 1:
			b[i] = "lorem ipsum dolor sit amet "[(i+int(seed))%27]
		default:
			b[i] = byte(seed)
		}
	}
	return b
}

func genHeaderValue(t *rapid.T, allowInvalidUTF8 bool) string {
	switch rapid.IntRange(0, 7).Draw(t, "hvKind") {
	case 0:
		return ""
	case 1:
		return rapid.StringMatching(`[ -~]{1,40}`).Draw(t, "hvAscii")
	case 2:
		return rapid.SampledFrom([]string{"héllo wörld", "日本語", "naïve; filename*=UTF-8''%e2%82%ac", "emoji 🎉", "<script>&\"quoted\"</script>", "tab\there", `back\slash`, " line"}).Draw(t, "hvUnicode")
	case 3:
		return strings.Repeat(rapid.StringMatching(`[a-z0-9=; ]{1,8}`).Draw(t, "hvUnit"), rapid.IntRange(50, 600).Draw(t, "hvRep"))
	case 4:
		if allowInvalidUTF8 {
			// obs-text: bytes 0x80-0xff that are not valid UTF-8 (e.g. ISO-8859-1)
			return rapid.SampledFrom([]string{"caf\xe9", "\xff\xfe", "attachment; filename=\"r\xe9sum\xe9.pdf\"", "a\x80b"}).Draw(t, "hvObs")
		}
		return "plain"
	default:
		return rapid.StringMatching(`[a-zA-Z0-9 ,;=/._-]{0,30}`).Draw(t, "hvToken")
	}
}

func genC09Entry(thorough bool) func(t *rapid.T) c09Entry {
	return func(t *rapid.T) c09Entry {
		allowInvalid := !vstat.KnownOpen("header-value-invalid-utf8")
		e := c09Entry{
			Status:    rapid.SampledFrom([]int{0, 1, 2, 3, 3, 3, 4}).Draw(t, "status"),
			CreatedAt: rapid.SampledFrom([]int64{0, 1, 946684800, 1700000000, -1, 1<<62 + 5, -1 << 63, 1<<63 - 1}).Draw(t, "createdAt"),
			ExpiredAt: rapid.SampledFrom([]int64{0, 2, 946684860, 1700000300, -7, 1<<63 - 1, -1 << 63}).Draw(t, "expiredAt"),
			HasResp:   rapid.IntRange(0, 9).Draw(t, "hasResp") > 0,
		}
		if !e.HasResp {
			return e
		}
		e.CompressSrv = rapid.SampledFrom([]string{"", "bestCompression", "custom", "压缩", strings.Repeat("n", 300)}).Draw(t, "srv")
		e.MinLength = rapid.SampledFrom([]int{0, 1, 1024, 1<<31 - 1}).Draw(t, "minLength")
		e.Filter = rapid.SampledFrom(c09Filters).Draw(t, "filter")
		e.StatusCode = rapid.SampledFrom([]int{100, 200, 200, 204, 301, 304, 404, 500, 599}).Draw(t, "code")
		nh := rapid.IntRange(0, 12).Draw(t, "nHeaders")
		names := []string{"Content-Type", "Cache-Control", "Etag", "Last-Modified", "X-Custom", "Set-Cookie", "Vary", "Content-Disposition", "Link", "X-A", "X-B", "Server", "Content-Language"}
		seen := map[string]bool{}
		for i := 0; i < nh; i++ {
			n := rapid.SampledFrom(names).Draw(t, "hName")
			if seen[n] {
				continue
			}
			seen[n] = true
			nv := rapid.IntRange(1, 3).Draw(t, "nValues")
			h := c09Header{Name: n}
			for j := 0; j < nv; j++ {
				v := genHeaderValue(t, allowInvalid)
				if n == "Content-Type" {
					v = rapid.SampledFrom([]string{"text/plain", "application/json; charset=utf-8", "image/png", "", "text/html"}).Draw(t, "ct")
				}
				h.Values = append(h.Values, v)
			}
			e.Headers = append(e.Headers, h)
		}
		mask := rapid.IntRange(0, 7).Draw(t, "variants")
		if mask&1 != 0 {
			e.Raw = genBody(t, "raw", thorough)
		}
		// stored compressed variants must be valid streams of their format: Fill
		// decodes them for clients that do not accept the encoding
		if mask&2 != 0 {
			e.Gzip = refGzip(genBody(t, "gz", false), 6)
		}
		if mask&4 != 0 {
			e.Br = refBrotli(genBody(t, "br", false), 5)
		}
		return e
	}
}

func (e c09Entry) build() interface {
	Bytes() ([]byte, error)
} {
	var resp *cache.HTTPResponse
	if e.HasResp {
		resp = &cache.HTTPResponse{CompressSrv: e.CompressSrv, CompressMinLength: e.MinLength, StatusCode: e.StatusCode,
			RawBody: e.Raw, GzipBody: e.Gzip, BrBody: e.Br}
		if e.Filter != "" {
			resp.CompressContentTypeFilter = regexp.MustCompile(e.Filter)
		}
		if len(e.Headers) > 0 {
			resp.Header = http.Header{}
			for _, h := range e.Headers {
				for _, v := range h.Values {
					resp.Header.Add(h.Name, v)
				}
			}
		}
	}
	return cache.VerifNewEntry(cache.Status(e.Status), resp, e.CreatedAt, e.ExpiredAt)
}

type filled struct {
	Err      string
	Code     int
	Header   http.Header
	Body     []byte
}

func fillWith(resp *cache.HTTPResponse, ae string) filled {
	req := httptest.NewRequest("GET", "/", nil)
	if ae != "" {
		req.Header.Set("Accept-Encoding", ae)
	}
	c := elton.NewContext(httptest.NewRecorder(), req)
	err := resp.Fill(c)
	f := filled{}
	if err != nil {
		f.Err = err.Error()
		return f
	}
	f.Code = c.StatusCode
	f.Header = c.Header().Clone()
	if c.BodyBuffer != nil {
		f.Body = append([]byte{}, c.BodyBuffer.Bytes()...)
	}
	return f
}

func headerEqual(a, b http.Header) bool {
	if len(a) != len(b) {
		return false
	}
	for k, v := range a {
		if !reflect.DeepEqual(v, b[k]) {
			return false
		}
	}
	return true
}

func hasInvalidUTF8(e c09Entry) bool {
	for _, h := range e.Headers {
		for _, v := range h.Values {
			if !utf8.ValidString(v) {
				return true
			}
		}
	}
	return false
}

var c09AEs = []string{"", "gzip", "br", "gzip, br", "deflate"}

func respFieldsEqual(a, b *cache.HTTPResponse) string {
	if a == nil {
		a = &cache.HTTPResponse{}
	}
	if b == nil {
		b = &cache.HTTPResponse{}
	}
	fa, fb := "", ""
	if a.CompressContentTypeFilter != nil {
		fa = a.CompressContentTypeFilter.String()
	}
	if b.CompressContentTypeFilter != nil {
		fb = b.CompressContentTypeFilter.String()
	}
	switch {
	case a.CompressSrv != b.CompressSrv:
		return "CompressSrv"
	case a.CompressMinLength != b.CompressMinLength:
		return "CompressMinLength"
	case fa != fb:
		return "CompressContentTypeFilter"
	case a.StatusCode != b.StatusCode:
		return "StatusCode"
	case !bytes.Equal(a.RawBody, b.RawBody):
		return "RawBody"
	case !bytes.Equal(a.GzipBody, b.GzipBody):
		return "GzipBody"
	case !bytes.Equal(a.BrBody, b.BrBody):
		return "BrBody"
	case !headerEqual(a.Header, b.Header):
		return "Header"
	}
	return ""
}

func execC09RoundTrip(e c09Entry) *vstat.Outcome {
	out := &vstat.Outcome{}
	if hasInvalidUTF8(e) && vstat.KnownOpen("header-value-invalid-utf8") {
		out.Excluded = map[string]int{"header-value-invalid-utf8": 1}
		return out
	}
	src := e.build().(interface {
		Bytes() ([]byte, error)
		VerifEntryFields() (cache.Status, *cache.HTTPResponse, int64, int64)
		GetStatus() cache.Status
		IsExpired() bool
	})
	data, err := src.Bytes()
	if err != nil {
		out.Violate("C09", "encode", "Bytes failed: %v", err)
		return out
	}
	// other entries are encoded before this record is decoded: a record handed out
	// by Bytes must stay intact (store writes of different keys overlap in production)
	other := e
	other.CreatedAt, other.ExpiredAt, other.StatusCode = e.CreatedAt+1, e.ExpiredAt+1, 418
	other.Headers = append([]c09Header{{Name: "X-Other", Values: []string{"other entry"}}}, e.Headers...)
	other.Raw = append([]byte("other body "), e.Raw...)
	for i := 0; i < 2; i++ {
		if _, err := other.build().Bytes(); err != nil {
			break
		}
	}
	dst := cache.NewHTTPCache()
	if err := dst.FromBytes(data); err != nil {
		out.Violate("C09", "roundtrip", "FromBytes(Bytes(entry)) failed: %v", err)
		return out
	}
	s1, r1, c1, x1 := src.VerifEntryFields()
	s2, r2, c2, x2 := dst.VerifEntryFields()
	if s1 != s2 || c1 != c2 || x1 != x2 {
		out.Violate("C09", "roundtrip", "entry fields changed: status %v->%v createdAt %d->%d expiredAt %d->%d", s1, s2, c1, c2, x1, x2)
	}
	if f := respFieldsEqual(r1, r2); f != "" {
		out.Violate("C09", "roundtrip", "response field %s changed across encode/decode", f)
	}
	if src.GetStatus() != dst.GetStatus() || src.IsExpired() != dst.IsExpired() {
		out.Violate("C09", "roundtrip", "GetStatus/IsExpired differ after the round trip")
	}
	if r1 != nil && r2 != nil && len(out.Violations) == 0 {
		for _, ae := range c09AEs {
			a, b := fillWith(r1, ae), fillWith(r2, ae)
			if a.Err != b.Err || a.Code != b.Code || !bytes.Equal(a.Body, b.Body) || !headerEqual(a.Header, b.Header) {
				out.Violate("C09", "behaviour", "Fill with Accept-Encoding %q differs after the round trip: err %q/%q status %d/%d body %d/%d bytes headers equal=%v",
					ae, a.Err, b.Err, a.Code, b.Code, len(a.Body), len(b.Body), headerEqual(a.Header, b.Header))
				break
			}
		}
	}
	// every strict prefix must be rejected (all offsets up to 4 KiB, sampled beyond)
	step := 1
	for cut := 0; cut < len(data); cut += step {
		if cut > 4096 {
			step = 997
		}
		tmp := cache.NewHTTPCache()
		if err := tmp.FromBytes(data[:cut]); err == nil {
			out.Violate("C09", "truncation", "a record of %d bytes truncated to %d bytes was accepted", len(data), cut)
			break
		}
	}
	nb := 0
	for _, b := range [][]byte{e.Raw, e.Gzip, e.Br} {
		if len(b) > 0 {
			nb++
		}
	}
	out.NonTrivial = e.HasResp && len(e.Headers) >= 2 && nb >= 1
	if e.HasResp {
		out.Class("has_response")
	}
	if hasInvalidUTF8(e) {
		out.Class("invalid_utf8_header_value")
	}
	if len(e.Raw) >= 65536 || len(e.Gzip) >= 65536 {
		out.Class("body>=64KiB")
	}
	return out
}

func TestC09RoundTrip(t *testing.T) {
	vstat.Run(t, "C09", "unit", genC09Entry(vstat.Tier() == "thorough"), execC09RoundTrip)
}

// ---------------------------------------------------------------------
// byte level: mutated records

type c09Mut struct {
	Base  c09Entry `json:"base"`
	Kind  string   `json:"kind"` // flip | lenfield | random | splice
	Pos   int      `json:"pos"`
	Val   uint32   `json:"val"`
	Seed  uint32   `json:"seed"`
	Count int      `json:"count"`
}

func genC09Mut(t *rapid.T) c09Mut {
	m := c09Mut{Base: genC09Entry(false)(t)}
	m.Kind = rapid.SampledFrom([]string{"flip", "flip", "lenfield", "lenfield", "random", "splice", "fieldspan"}).Draw(t, "kind")
	m.Pos = rapid.IntRange(0, 1<<20).Draw(t, "pos")
	m.Val = rapid.SampledFrom([]uint32{0, 1, 2, 3, 0x7fffffff, 0x80000000, 0xffffffff, 0xfffffff0, 1 << 20}).Draw(t, "val")
	m.Seed = rapid.Uint32().Draw(t, "seed")
	m.Count = rapid.IntRange(1, 8).Draw(t, "count")
	return m
}

func (m c09Mut) bytes() []byte {
	base, _ := m.Base.build().Bytes()
	b := append([]byte{}, base...)
	x := uint64(m.Seed)*2862933555777941757 + 3037000493
	next := func() uint64 { x = x*2862933555777941757 + 3037000493; return x >> 33 }
	switch m.Kind {
	case "flip":
		for i := 0; i < m.Count && len(b) > 0; i++ {
			p := (m.Pos + int(next())) % len(b)
			b[p] ^= 1 << (next() % 8)
		}
	case "lenfield":
		// overwrite a 4-byte aligned-ish field near the start (status / sizes) or at pos
		offs := []int{0, 4, 8}
		if len(b) >= 12 {
			off := offs[int(next())%3]
			if m.Count > 4 && len(b) > 16 {
				off = m.Pos % (len(b) - 4)
			}
			binary.BigEndian.PutUint32(b[off:], m.Val)
		}
	case "random":
		n := m.Pos % 512
		b = make([]byte, n)
		for i := range b {
			b[i] = byte(next())
		}
		if n >= 8 && m.Count > 4 {
			binary.BigEndian.PutUint32(b, 3)
			binary.BigEndian.PutUint32(b[4:], m.Val)
		}
	case "fieldspan":
		// make one of the inner length fields (compress name, filter, header) span the rest of the record
		if m.Base.HasResp && len(b) > 40 {
			offs := []int{8, 8 + 4 + len(m.Base.CompressSrv) + 4}
			off := offs[m.Count%len(offs)]
			if off+4 < len(b) {
				span := len(b) - off - 4 - m.Pos%17
				if span < 0 {
					span = 0
				}
				binary.BigEndian.PutUint32(b[off:], uint32(span))
			}
		}
	case "splice":
		if len(b) > 2 {
			cut := m.Pos % len(b)
			b = append(append([]byte{}, b[cut:]...), b[:cut]...)
		}
	}
	return b
}

func execC09Mut(m c09Mut) *vstat.Outcome {
	out := &vstat.Outcome{}
	data := m.bytes()
	var ms0, ms1 runtime.MemStats
	var err error
	hc := cache.NewHTTPCache()
	panicked := ""
	runtime.ReadMemStats(&ms0)
	func() {
		defer func() {
			if r := recover(); r != nil {
				panicked = fmt.Sprint(r)
			}
		}()
		err = hc.FromBytes(data)
	}()
	runtime.ReadMemStats(&ms1)
	if panicked != "" {
		out.Violate("C09", "panic", "FromBytes panicked on %d mutated bytes (%s): %s", len(data), m.Kind, panicked)
		return out
	}
	alloc := ms1.TotalAlloc - ms0.TotalAlloc
	limit := uint64(8<<20 + 64*len(data))
	if alloc > limit {
		out.Violate("C09", "alloc", "FromBytes allocated %d bytes for a %d-byte input (limit %d)", alloc, len(data), limit)
	}
	if err == nil {
		// whatever decodes must be a fixed point of encode/decode
		d2, e2 := hc.Bytes()
		if e2 != nil {
			out.Class("decoded_but_unencodable")
		} else {
			h2 := cache.NewHTTPCache()
			if e3 := h2.FromBytes(d2); e3 != nil {
				out.Violate("C09", "fixed-point", "re-encoding a successfully decoded record gives bytes that do not decode: %v", e3)
			} else {
				s1, r1, c1, x1 := hc.VerifEntryFields()
				s2, r2, c2, x2 := h2.VerifEntryFields()
				if s1 != s2 || c1 != c2 || x1 != x2 || respFieldsEqual(r1, r2) != "" {
					out.Violate("C09", "fixed-point", "decode(encode(decode(x))) differs from decode(x) (%s)", respFieldsEqual(r1, r2))
				}
			}
		}
		out.Class("decoded_ok")
	} else {
		out.Class("rejected")
	}
	out.NonTrivial = len(data) >= 12
	out.Class("kind_" + m.Kind)
	return out
}

func TestC09Mutated(t *testing.T) {
	vstat.Run(t, "C09", "unit", genC09Mut, execC09Mut)
}

// TestC09ProbeInvalidUTF8 demonstrates the known finding header-value-invalid-utf8
func TestC09ProbeInvalidUTF8(t *testing.T) {
	rec := vstat.For("C09", t.Name(), "unit")
	e := c09Entry{Status: 3, CreatedAt: 1, ExpiredAt: 2, HasResp: true, StatusCode: 200,
		Headers: []c09Header{{Name: "Content-Disposition", Values: []string{"attachment; filename=\"r\xe9sum\xe9.pdf\""}}}, Raw: []byte("x")}
	out := &vstat.Outcome{NonTrivial: true}
	src := e.build().(interface {
		Bytes() ([]byte, error)
		VerifEntryFields() (cache.Status, *cache.HTTPResponse, int64, int64)
	})
	data, err := src.Bytes()
	if err != nil {
		out.Violate("C09", "encode", "Bytes failed: %v", err)
	} else {
		dst := cache.NewHTTPCache()
		if err := dst.FromBytes(data); err != nil {
			out.Violate("C09", "roundtrip", "FromBytes failed: %v", err)
		} else {
			_, r1, _, _ := src.VerifEntryFields()
			_, r2, _, _ := dst.VerifEntryFields()
			if f := respFieldsEqual(r1, r2); f != "" {
				out.Violate("C09", "roundtrip", "header value %q (ISO-8859-1 bytes) came back as %q", r1.Header.Get("Content-Disposition"), r2.Header.Get("Content-Disposition"))
			}
		}
	}
	vstat.RunOne(t, rec, e, out)
}

var _ = sort.Strings
