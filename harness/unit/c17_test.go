//go:build verif

package unit

// C17 — accepted configurations are closed under references and round-trip.

import (
	"fmt"
	"os"
	"path/filepath"
	"reflect"
	"regexp"
	"strings"
	"sync"
	"testing"
	"time"
	"unicode/utf8"

	"github.com/dustin/go-humanize"
	"github.com/vicanso/pike/config"
	"pgregory.net/rapid"

	"verif/harness/internal/vstat"
)

type c17Scenario struct {
	Cfg    config.PikeConfig `json:"cfg"`
	Defect string            `json:"defect"` // "" = valid by construction
	Sel    int               `json:"sel,omitempty"` // which element received the defect (modulo the list length)
	// Again: the accepted configuration is saved a second time and read back -- "same": straight away;
	// "edited": after the stored configuration was changed behind pike's back (the file edited by hand,
	// another instance saving into the shared etcd key)
	Again string `json:"again,omitempty"`
}

var yamlNames = []string{"n1", "cache", "yes", "null", "~", "1e3", "0x1", "a: b", "- x", "#c", " lead", "trail ", "'q'", `"dq"`, "名字", "on", "123", "true", "x", "abcdefghijklmnopqrst", "a\tb", "{a}", "[b]", "a,b", "%p", "@at", "`bt`", "!tag", "&anchor", "*alias", "|", ">", "key: 'v'", "N", "off", "1_000", "0o7", ".5", "-", "? q"}

func genName(t *rapid.T, label string) string {
	return rapid.SampledFrom(yamlNames).Draw(t, label)
}

func genRemark(t *rapid.T) string {
	return rapid.SampledFrom([]string{"", "", "plain remark", "multi\nline\nremark", "trailing space ", "  ", "colon: value", "# comment?", "unicode ✓", "'single'", `"double"`, "tab\tsep", "- dash", "null", "line\r\nwin", "very " + strings.Repeat("long ", 40)}).Draw(t, "remark")
}

func uniqueNames(t *rapid.T, n int, label string) []string {
	seen := map[string]bool{}
	var res []string
	for len(res) < n {
		s := genName(t, label)
		if seen[s] {
			s = fmt.Sprintf("%s%d", s, len(res))
			if utf8.RuneCountInString(s) > 20 || seen[s] {
				s = fmt.Sprintf("u%d", len(res))
			}
		}
		seen[s] = true
		res = append(res, s)
	}
	return res
}

func genValidConfig(t *rapid.T) config.PikeConfig {
	c := config.PikeConfig{}
	if rapid.Bool().Draw(t, "admin") {
		c.Admin = config.AdminConfig{User: rapid.SampledFrom([]string{"", "adm", "admin: x", "用户名"}).Draw(t, "user"),
			Password: rapid.SampledFrom([]string{"", "secret", "p@ss: #1", "  spaced  "}).Draw(t, "password"), Remark: genRemark(t)}
	}
	levelKeys := []string{"gzip", "br"}
	if rapid.IntRange(0, 19).Draw(t, "oddLevelKey") == 0 {
		// keys other than gzip/br are meaningless; they must be rejected or round-trip
		levelKeys = append(levelKeys, "<<", "yes", "1", "~")
	}
	for _, n := range uniqueNames(t, rapid.IntRange(0, 3).Draw(t, "nCompress"), "compressName") {
		cc := config.CompressConfig{Name: n, Remark: genRemark(t)}
		nl := rapid.IntRange(0, 2).Draw(t, "nLevels")
		for i := 0; i < nl; i++ {
			if cc.Levels == nil {
				cc.Levels = map[string]uint{}
			}
			cc.Levels[rapid.SampledFrom(levelKeys).Draw(t, "levelKey")] = uint(rapid.IntRange(0, 12).Draw(t, "level"))
		}
		c.Compresses = append(c.Compresses, cc)
	}
	for _, n := range uniqueNames(t, rapid.IntRange(1, 3).Draw(t, "nCaches"), "cacheName") {
		c.Caches = append(c.Caches, config.CacheConfig{Name: n, Size: rapid.SampledFrom([]int{1, 8, 1000, 51200}).Draw(t, "size"),
			HitForPass: rapid.SampledFrom([]string{"5m", "300s", "1h", "0s", "1.5s", "-5s"}).Draw(t, "hfp"),
			Store:      rapid.SampledFrom([]string{"", "", "badger:///tmp/badger", "redis://:pwd@127.0.0.1:6379/?timeout=3s", "mongodb://localhost:27017/pike"}).Draw(t, "store"),
			Remark:     genRemark(t)})
	}
	for _, n := range uniqueNames(t, rapid.IntRange(1, 3).Draw(t, "nUpstreams"), "upstreamName") {
		u := config.UpstreamConfig{Name: n, Remark: genRemark(t),
			HealthCheck:    rapid.SampledFrom([]string{"", "/ping", "/health?x=1"}).Draw(t, "health"),
			Policy:         rapid.SampledFrom([]string{"", "first", "random", "roundRobin", "leastconn"}).Draw(t, "policy"),
			EnableH2C:      rapid.Bool().Draw(t, "h2c"),
			AcceptEncoding: rapid.SampledFrom([]string{"", "gzip", "gzip, br", "snz, lz4"}).Draw(t, "acceptEncoding")}
		ns := rapid.IntRange(1, 3).Draw(t, "nServers")
		for i := 0; i < ns; i++ {
			u.Servers = append(u.Servers, config.UpstreamServerConfig{
				Addr:   rapid.SampledFrom([]string{"http://127.0.0.1:3000", "https://a.test", "http://b.test:8080", "http://[::1]:3001"}).Draw(t, "addr"),
				Backup: rapid.Bool().Draw(t, "backup")})
		}
		c.Upstreams = append(c.Upstreams, u)
	}
	divide := func(label string) []string {
		n := rapid.IntRange(0, 2).Draw(t, label+"N")
		var res []string
		for i := 0; i < n; i++ {
			res = append(res, rapid.SampledFrom([]string{"X-Key:value", "a:b", "k: spaced ", "$ENV:v", "名:值", "/api/*:/$1", "x:"}).Draw(t, label))
		}
		return res
	}
	for _, n := range uniqueNames(t, rapid.IntRange(1, 3).Draw(t, "nLocations"), "locationName") {
		l := config.LocationConfig{Name: n, Remark: genRemark(t),
			Upstream:     c.Upstreams[rapid.IntRange(0, len(c.Upstreams)-1).Draw(t, "up")].Name,
			ProxyTimeout: rapid.SampledFrom([]string{"", "30s", "1m", "500ms"}).Draw(t, "proxyTimeout"),
			Rewrites:     divide("rewrite"), QueryStrings: divide("query"), RespHeaders: divide("respHeader"), ReqHeaders: divide("reqHeader")}
		np := rapid.IntRange(0, 2).Draw(t, "nPrefixes")
		for i := 0; i < np; i++ {
			l.Prefixes = append(l.Prefixes, rapid.SampledFrom([]string{"/", "/api", "/a b", "/#x", "/yes"}).Draw(t, "prefix"))
		}
		nh := rapid.IntRange(0, 2).Draw(t, "nHosts")
		for i := 0; i < nh; i++ {
			l.Hosts = append(l.Hosts, rapid.SampledFrom([]string{"aa.test", "www.b-c.test", "localhost", "x1.y2.z3"}).Draw(t, "host"))
		}
		c.Locations = append(c.Locations, l)
	}
	nServers := rapid.IntRange(0, 3).Draw(t, "nServersTop")
	for i := 0; i < nServers; i++ {
		s := config.ServerConfig{Addr: fmt.Sprintf(":%d", 3000+i), Remark: genRemark(t),
			LogFormat:                 rapid.SampledFrom([]string{"", "{remote} {when-iso} \"{method} {uri}\"", "# not a comment"}).Draw(t, "logFormat"),
			Cache:                     c.Caches[rapid.IntRange(0, len(c.Caches)-1).Draw(t, "cacheRef")].Name,
			CompressMinLength:         rapid.SampledFrom([]string{"", "1kb", "100", "1 MB", "0"}).Draw(t, "minLength"),
			CompressContentTypeFilter: rapid.SampledFrom([]string{"", "text|json", "^image/", "[a-z]+"}).Draw(t, "filter")}
		if len(c.Compresses) > 0 && rapid.Bool().Draw(t, "hasCompress") {
			s.Compress = c.Compresses[rapid.IntRange(0, len(c.Compresses)-1).Draw(t, "compressRef")].Name
		}
		nl := rapid.IntRange(1, len(c.Locations)).Draw(t, "nLocRefs")
		for j := 0; j < nl; j++ {
			s.Locations = append(s.Locations, c.Locations[rapid.IntRange(0, len(c.Locations)-1).Draw(t, "locRef")].Name)
		}
		c.Servers = append(c.Servers, s)
	}
	return c
}

var c17Defects = []string{"dangling-upstream", "dangling-location", "dangling-cache", "dangling-compress", "name-too-long", "bad-duration-hfp", "bad-duration-timeout",
	"bad-size", "bad-regexp", "bad-policy", "bad-addr-scheme", "prefix-without-slash", "divide-no-colon", "divide-two-colons", "bad-hostname", "size-zero", "size-negative",
	"no-upstream-servers", "no-server-locations", "server-without-cache", "cache-without-name", "healthcheck-without-slash", "missing-hfp"}

// inject returns false when the config has no place for that defect
func inject(c *config.PikeConfig, d string, sel int) bool {
	li, ui, ci, si := sel%len(c.Locations), sel%len(c.Upstreams), sel%len(c.Caches), 0
	if len(c.Servers) > 0 {
		si = sel % len(c.Servers)
	}
	_ = si
	switch d {
	case "dangling-upstream":
		c.Locations[li].Upstream = "nowhere"
	case "dangling-location":
		if len(c.Servers) == 0 {
			return false
		}
		c.Servers[si].Locations = append(c.Servers[si].Locations, "nowhere")
	case "dangling-cache":
		if len(c.Servers) == 0 {
			return false
		}
		c.Servers[si].Cache = "nowhere"
	case "dangling-compress":
		if len(c.Servers) == 0 {
			return false
		}
		c.Servers[si].Compress = "nowhere"
	case "name-too-long":
		c.Caches[ci].Name = "abcdefghijklmnopqrstu" // 21
	case "bad-duration-hfp":
		c.Caches[ci].HitForPass = "5 minutes"
	case "bad-duration-timeout":
		c.Locations[li].ProxyTimeout = "30"
	case "bad-size":
		if len(c.Servers) == 0 {
			return false
		}
		c.Servers[si].CompressMinLength = "1 kilo"
	case "bad-regexp":
		if len(c.Servers) == 0 {
			return false
		}
		c.Servers[si].CompressContentTypeFilter = "(unclosed"
	case "bad-policy":
		c.Upstreams[ui].Policy = "fastest"
	case "bad-addr-scheme":
		c.Upstreams[ui].Servers[0].Addr = "127.0.0.1:3000"
	case "prefix-without-slash":
		c.Locations[li].Prefixes = append(c.Locations[li].Prefixes, "api")
	case "divide-no-colon":
		c.Locations[li].ReqHeaders = append(c.Locations[li].ReqHeaders, "X-Key value")
	case "divide-two-colons":
		c.Locations[li].RespHeaders = append(c.Locations[li].RespHeaders, "X-Time:12:30")
	case "bad-hostname":
		c.Locations[li].Hosts = append(c.Locations[li].Hosts, "bad host/name")
	case "size-zero":
		c.Caches[ci].Size = 0
	case "size-negative":
		c.Caches[ci].Size = -5
	case "no-upstream-servers":
		c.Upstreams[ui].Servers = nil
	case "no-server-locations":
		if len(c.Servers) == 0 {
			return false
		}
		c.Servers[si].Locations = nil
	case "server-without-cache":
		if len(c.Servers) == 0 {
			return false
		}
		c.Servers[si].Cache = ""
	case "cache-without-name":
		c.Caches[ci].Name = ""
	case "healthcheck-without-slash":
		c.Upstreams[ui].HealthCheck = "ping"
	case "missing-hfp":
		c.Caches[ci].HitForPass = ""
	}
	return true
}

var hostnameRe = regexp.MustCompile(`^([a-zA-Z0-9]{1}[a-zA-Z0-9-]{0,62})(\.[a-zA-Z0-9]{1}[a-zA-Z0-9-]{0,62})*?$`)

// closed: the reference closure / well-formedness check written from the
// documented rules (docs/config.md and the statement); returns the first problem
func closed(c *config.PikeConfig) string {
	nameOK := func(s string) bool { return s != "" && utf8.RuneCountInString(s) <= 20 }
	divideOK := func(list []string) bool {
		for _, s := range list {
			if strings.Count(s, ":") != 1 {
				return false
			}
		}
		return true
	}
	has := func(names []string, n string) bool {
		for _, x := range names {
			if x == n {
				return true
			}
		}
		return false
	}
	var compressNames, cacheNames, upstreamNames, locationNames []string
	for _, x := range c.Compresses {
		if !nameOK(x.Name) {
			return "compress name"
		}
		compressNames = append(compressNames, x.Name)
	}
	for _, x := range c.Caches {
		if !nameOK(x.Name) {
			return "cache name"
		}
		if x.Size <= 0 {
			return "cache size"
		}
		if _, err := time.ParseDuration(x.HitForPass); err != nil {
			return "cache hitForPass"
		}
		cacheNames = append(cacheNames, x.Name)
	}
	for _, x := range c.Upstreams {
		if !nameOK(x.Name) {
			return "upstream name"
		}
		if len(x.Servers) == 0 {
			return "upstream servers"
		}
		for _, s := range x.Servers {
			if !strings.HasPrefix(s.Addr, "http://") && !strings.HasPrefix(s.Addr, "https://") {
				return "upstream addr"
			}
		}
		if x.HealthCheck != "" && x.HealthCheck[0] != '/' {
			return "upstream healthCheck"
		}
		if x.Policy != "" && !has([]string{"first", "random", "roundRobin", "leastconn"}, x.Policy) {
			return "upstream policy"
		}
		upstreamNames = append(upstreamNames, x.Name)
	}
	for _, x := range c.Locations {
		if !nameOK(x.Name) {
			return "location name"
		}
		if !has(upstreamNames, x.Upstream) {
			return "location upstream reference"
		}
		for _, p := range x.Prefixes {
			if p == "" || p[0] != '/' {
				return "location prefix"
			}
		}
		if !divideOK(x.Rewrites) || !divideOK(x.QueryStrings) || !divideOK(x.RespHeaders) || !divideOK(x.ReqHeaders) {
			return "location key:value"
		}
		for _, h := range x.Hosts {
			if !hostnameRe.MatchString(h) {
				return "location host"
			}
		}
		if x.ProxyTimeout != "" {
			if _, err := time.ParseDuration(x.ProxyTimeout); err != nil {
				return "location proxyTimeout"
			}
		}
		locationNames = append(locationNames, x.Name)
	}
	for _, x := range c.Servers {
		if x.Addr == "" {
			return "server addr"
		}
		if len(x.Locations) == 0 {
			return "server locations"
		}
		for _, l := range x.Locations {
			if !has(locationNames, l) {
				return "server location reference"
			}
		}
		if !has(cacheNames, x.Cache) {
			return "server cache reference"
		}
		if x.Compress != "" && !has(compressNames, x.Compress) {
			return "server compress reference"
		}
		if x.CompressMinLength != "" {
			if _, err := humanize.ParseBytes(x.CompressMinLength); err != nil {
				return "server compressMinLength"
			}
		}
		if x.CompressContentTypeFilter != "" {
			if _, err := regexp.Compile(x.CompressContentTypeFilter); err != nil {
				return "server compressContentTypeFilter"
			}
		}
	}
	return ""
}

var (
	c17Once sync.Once
	c17File string
)

func c17Client(t interface{ Fatalf(string, ...interface{}) }) {
	c17Once.Do(func() {
		dir, err := os.MkdirTemp("", "verif-c17-")
		if err != nil {
			t.Fatalf("tempdir: %v", err)
		}
		c17File = filepath.Join(dir, "pike.yml")
	})
	// every case starts with a freshly opened client on an empty file, so that a case is a
	// function of its scenario alone
	_ = os.Remove(c17File)
	if err := config.InitDefaultClient(c17File); err != nil {
		t.Fatalf("init config client: %v", err)
	}
}

// normalise: nil == empty, display-only fields dropped
func normalise(c config.PikeConfig) config.PikeConfig {
	c.YAML, c.Version = "", ""
	fix := func(s []string) []string {
		if len(s) == 0 {
			return nil
		}
		return s
	}
	if len(c.Compresses) == 0 {
		c.Compresses = nil
	}
	for i := range c.Compresses {
		if len(c.Compresses[i].Levels) == 0 {
			c.Compresses[i].Levels = nil
		}
	}
	if len(c.Caches) == 0 {
		c.Caches = nil
	}
	if len(c.Upstreams) == 0 {
		c.Upstreams = nil
	}
	for i := range c.Upstreams {
		if len(c.Upstreams[i].Servers) == 0 {
			c.Upstreams[i].Servers = nil
		}
		for j := range c.Upstreams[i].Servers {
			c.Upstreams[i].Servers[j].Healthy = false
		}
	}
	if len(c.Locations) == 0 {
		c.Locations = nil
	}
	for i := range c.Locations {
		l := &c.Locations[i]
		l.Prefixes, l.Rewrites, l.QueryStrings, l.RespHeaders, l.ReqHeaders, l.Hosts = fix(l.Prefixes), fix(l.Rewrites), fix(l.QueryStrings), fix(l.RespHeaders), fix(l.ReqHeaders), fix(l.Hosts)
	}
	if len(c.Servers) == 0 {
		c.Servers = nil
	}
	for i := range c.Servers {
		c.Servers[i].Locations = fix(c.Servers[i].Locations)
	}
	return c
}

func usesOddLevelKey(c *config.PikeConfig) bool {
	for _, x := range c.Compresses {
		for k := range x.Levels {
			if k != "gzip" && k != "br" {
				return true
			}
		}
	}
	return false
}

func execC17(sc c17Scenario) *vstat.Outcome {
	out := &vstat.Outcome{}
	c17Client(panicT{})
	cfg := sc.Cfg
	problem := closed(&cfg)
	verr := cfg.Validate()
	if verr == nil && problem != "" {
		out.Violate("C17", "accepts-unclosed", "Validate accepted a configuration whose %s is dangling/malformed (injected defect %q)", problem, sc.Defect)
		return out
	}
	if sc.Defect != "" && verr == nil {
		out.Violate("C17", "accepts-defect", "Validate accepted a configuration with the injected defect %q", sc.Defect)
		return out
	}
	copyCfg := cfg
	werr := config.Write(&copyCfg)
	if (werr == nil) != (verr == nil) {
		out.Violate("C17", "write-validate", "Write and Validate disagree: Validate=%v Write=%v", verr, werr)
		return out
	}
	if verr != nil {
		out.Class("rejected")
		if sc.Defect == "" {
			out.Class("valid_by_construction_rejected")
			msg := verr.Error()
			if i := strings.Index(msg, "Error:"); i >= 0 {
				msg = msg[:i]
			}
			if len(msg) > 80 {
				msg = msg[:80]
			}
			out.Class("reject_reason: " + msg)
		}
		out.NonTrivial = sc.Defect != ""
		out.Class("defect_" + sc.Defect)
		return out
	}
	out.Class("accepted")
	back, rerr := config.Read()
	if rerr != nil {
		out.Violate("C17", "roundtrip", "a configuration that was accepted and written cannot be read back: %v", rerr)
		return out
	}
	a, b := normalise(cfg), normalise(*back)
	if !reflect.DeepEqual(a, b) {
		out.Violate("C17", "roundtrip", "Read(Write(c)) differs from c: %s", firstDiff(a, b))
	}
	if sc.Again != "" {
		if sc.Again == "edited" {
			if err := os.WriteFile(c17File, []byte("caches:\n- name: edited-elsewhere\n  size: 10\n  hitForPass: 5m\n"), 0o600); err != nil {
				out.Inconclusive = true
				return out
			}
			if other, err := config.Read(); err != nil || len(other.Caches) != 1 || other.Caches[0].Name != "edited-elsewhere" {
				out.Violate("C17", "roundtrip", "the configuration file was replaced by hand but Read returns %+v (err %v)", other, err)
				return out
			}
		}
		again := cfg
		if err := config.Write(&again); err != nil {
			out.Violate("C17", "write-validate", "saving the same accepted configuration a second time failed: %v", err)
			return out
		}
		back2, err := config.Read()
		if err != nil {
			out.Violate("C17", "roundtrip", "second save (%s): the configuration cannot be read back: %v", sc.Again, err)
			return out
		}
		if a2, b2 := normalise(cfg), normalise(*back2); !reflect.DeepEqual(a2, b2) {
			out.Violate("C17", "roundtrip", "the configuration was saved again (%s: the stored one had been changed in between) and Write reported success, but Read returns something else: %s", sc.Again, firstDiff(a2, b2))
		}
		out.Class("saved_twice_" + sc.Again)
	}
	quoting := false
	check := func(s string) {
		if s != "" && (strings.ContainsAny(s, ":#-'\"\n\t{}[],&*!|>%@`~? ") || s == "yes" || s == "null" || s == "on" || s == "true" || s == "off" || s == "N" || s[0] >= '0' && s[0] <= '9' || s[0] == '.') {
			quoting = true
		}
	}
	for _, x := range cfg.Caches {
		check(x.Name)
		check(x.Remark)
	}
	for _, x := range cfg.Locations {
		check(x.Name)
	}
	for _, x := range cfg.Upstreams {
		check(x.Name)
	}
	for _, x := range cfg.Compresses {
		check(x.Name)
	}
	out.NonTrivial = len(cfg.Servers) >= 1 && len(cfg.Locations) >= 1 && len(cfg.Upstreams) >= 1 && quoting
	if quoting {
		out.Class("needs_yaml_quoting")
	}
	return out
}

type panicT struct{}

func (panicT) Fatalf(f string, a ...interface{}) { panic(fmt.Sprintf(f, a...)) }

func firstDiff(a, b config.PikeConfig) string {
	va, vb := reflect.ValueOf(a), reflect.ValueOf(b)
	for i := 0; i < va.NumField(); i++ {
		if !reflect.DeepEqual(va.Field(i).Interface(), vb.Field(i).Interface()) {
			return fmt.Sprintf("section %s: wrote %+v, read %+v", va.Type().Field(i).Name, va.Field(i).Interface(), vb.Field(i).Interface())
		}
	}
	return "?"
}

func genC17(t *rapid.T) c17Scenario {
	sc := c17Scenario{Cfg: genValidConfig(t)}
	sc.Again = rapid.SampledFrom([]string{"", "", "same", "edited"}).Draw(t, "again")
	if rapid.IntRange(0, 2).Draw(t, "withDefect") == 0 {
		d := rapid.SampledFrom(c17Defects).Draw(t, "defect")
		sc.Sel = rapid.IntRange(0, 11).Draw(t, "defectAt")
		if inject(&sc.Cfg, d, sc.Sel) {
			sc.Defect = d
		}
	}
	return sc
}

func TestC17(t *testing.T) {
	vstat.Run(t, "C17", "unit", genC17, execC17)
}

// TestC17ProbeLevelsKey demonstrates the finding levels-key-yaml-merge
func TestC17ProbeLevelsKey(t *testing.T) {
	rec := vstat.For("C17", t.Name(), "unit")
	sc := c17Scenario{Cfg: config.PikeConfig{Compresses: []config.CompressConfig{{Name: "c", Levels: map[string]uint{"<<": 1}}}}}
	out := execC17(sc)
	out.NonTrivial = true
	vstat.RunOne(t, rec, sc, out)
}
