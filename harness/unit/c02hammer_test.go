//go:build verif

package unit

// C02 (free-running, entry level) — "no request blocks forever, no deadlock
// arises between requests": the simulation owns the schedule only at blocking
// operations and at its yield points; what happens between two lock operations
// of the entry itself is exercised here statistically. G goroutines do, for one
// or a few keys, what the cache middleware does per request (get-or-create the
// entry, Get, and on a hit Age + reading the response; the elected fetcher
// stores a response or marks the key hit-for-pass), while the entries expire
// and are purged. The oracle is progress: every goroutine finishes its quota.

import (
	"fmt"
	"sync"
	"sync/atomic"
	"testing"
	"time"

	"github.com/vicanso/pike/cache"
	"github.com/vicanso/pike/store"
	"pgregory.net/rapid"

	"verif/harness/internal/vstat"
)

type c02Hammer struct {
	Goroutines int  `json:"goroutines"`
	Rounds     int  `json:"rounds"` // lookups per goroutine
	Keys       int  `json:"keys"`
	HFPPct     int  `json:"hfpPct"` // share of fetches that end uncacheable
	TTL        int  `json:"ttl"`
	Purger     bool `json:"purger,omitempty"`
	Store      bool `json:"store,omitempty"`
}

func genC02Hammer(t *rapid.T) c02Hammer {
	return c02Hammer{
		Goroutines: rapid.SampledFrom([]int{4, 8, 16, 32}).Draw(t, "goroutines"),
		Rounds:     rapid.SampledFrom([]int{2000, 5000, 20000}).Draw(t, "rounds"),
		Keys:       rapid.SampledFrom([]int{1, 1, 2, 5}).Draw(t, "keys"),
		HFPPct:     rapid.SampledFrom([]int{0, 0, 10, 50}).Draw(t, "hfpPct"),
		TTL:        rapid.SampledFrom([]int{1, 60, 60}).Draw(t, "ttl"),
		Purger:     rapid.Bool().Draw(t, "purger"),
		Store:      rapid.IntRange(0, 3).Draw(t, "store") == 0,
	}
}

var c02hSeq int64

// c02hStall: no lookup at all completes for this long (the lookups take microseconds)
const c02hStall = 20 * time.Second

func execC02Hammer(sc c02Hammer) *vstat.Outcome {
	out := &vstat.Outcome{}
	seq := atomic.AddInt64(&c02hSeq, 1)
	opt := cache.DispatcherOption{Name: fmt.Sprintf("c02h-%d", seq), Size: 100, HitForPass: 1}
	if sc.Store {
		url := fmt.Sprintf("verifmem://c02h-%d", seq)
		store.VerifRegisterStore(url, newMapStore())
		defer store.VerifUnregisterStore(url)
		opt.Store = url
	}
	d := cache.NewDispatcher(opt)
	var progress, hits, fetches int64
	var stop int32
	var wg sync.WaitGroup
	finished := make(chan struct{})
	keyOf := func(i int) []byte { return []byte(fmt.Sprintf("GET c02h.test /%d/k%d", seq, i%sc.Keys)) }
	for g := 0; g < sc.Goroutines; g++ {
		wg.Add(1)
		go func(g int) {
			defer wg.Done()
			for r := 0; r < sc.Rounds && atomic.LoadInt32(&stop) == 0; r++ {
				hc := d.GetHTTPCache(keyOf(g + r))
				status, resp := hc.Get()
				switch status {
				case cache.StatusFetching:
					atomic.AddInt64(&fetches, 1)
					if sc.HFPPct > 0 && (g+r)%100 < sc.HFPPct {
						hc.HitForPass(1)
					} else {
						hc.Cacheable(&cache.HTTPResponse{StatusCode: 200, Header: map[string][]string{"Content-Type": {"image/png"}}, RawBody: []byte("body")}, sc.TTL)
					}
				case cache.StatusHit:
					// what the middleware does with a hit
					_ = hc.Age()
					if resp == nil || resp.StatusCode != 200 {
						atomic.AddInt64(&hits, -1000000)
					}
					atomic.AddInt64(&hits, 1)
				}
				atomic.AddInt64(&progress, 1)
			}
		}(g)
	}
	if sc.Purger {
		wg.Add(1)
		go func() {
			defer wg.Done()
			for i := 0; atomic.LoadInt32(&stop) == 0; i++ {
				select {
				case <-finished:
					return
				default:
				}
				d.RemoveHTTPCache(keyOf(i))
				time.Sleep(200 * time.Microsecond)
			}
		}()
	}
	go func() {
		// the workers (not the purger) decide when the case is over
		for atomic.LoadInt64(&progress) < int64(sc.Goroutines*sc.Rounds) && atomic.LoadInt32(&stop) == 0 {
			time.Sleep(time.Millisecond)
		}
		close(finished)
	}()
	last, lastAt := int64(-1), time.Now()
	stalled := false
	for {
		select {
		case <-finished:
		case <-time.After(100 * time.Millisecond):
			p := atomic.LoadInt64(&progress)
			if p != last {
				last, lastAt = p, time.Now()
				continue
			}
			if time.Since(lastAt) < c02hStall {
				continue
			}
			stalled = true
		}
		break
	}
	if stalled {
		atomic.StoreInt32(&stop, 1)
		out.Violate("C02", "stalled", "%d goroutines doing what the cache middleware does per request (lookup, Get, Age on a hit, store on a fetch) on %d key(s): after %d of %d lookups nothing completed for %s -- requests block each other for good (purger %v, store %v, lifetime %d s)",
			sc.Goroutines, sc.Keys, atomic.LoadInt64(&progress), sc.Goroutines*sc.Rounds, c02hStall, sc.Purger, sc.Store, sc.TTL)
		// the blocked goroutines are left behind; the process ends with the test
		return out
	}
	wg.Wait()
	if atomic.LoadInt64(&hits) < 0 {
		out.Violate("C02", "hit-without-response", "a hit came without the stored response")
	}
	out.NonTrivial = atomic.LoadInt64(&hits) > 0 && atomic.LoadInt64(&fetches) > 0
	out.Evals = sc.Goroutines * sc.Rounds
	return out
}

func TestC02Hammer(t *testing.T) {
	vstat.Run(t, "C02", "unit", genC02Hammer, execC02Hammer)
}
