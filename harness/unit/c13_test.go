//go:build verif

package unit

// C13 — content-encoding negotiation follows the documented decision table.
//
// The full product of {client Accept-Encoding} x {stored variants} x
// {min-length} x {size below/at/above} x {content type / filter} is enumerated
// in every run; bodies come from a PRNG seeded by VERIF_SEED.

import (
	"bytes"
	"fmt"
	"math/rand"
	"net/http"
	"regexp"
	"strings"
	"sync"
	"testing"

	"github.com/vicanso/pike/cache"
	"github.com/vicanso/pike/compress"
	"github.com/vicanso/pike/config"

	"verif/harness/internal/vstat"
)

type c13Cell struct {
	AE        string `json:"ae"`
	Stored    int    `json:"stored"` // bit0 raw, bit1 gzip, bit2 br
	MinLength int    `json:"minLength"`
	Size      int    `json:"size"`
	CT        string `json:"ct"`
	Filter    string `json:"filter"`
	BodySeed  int64  `json:"bodySeed"`
	Cacheable bool   `json:"cacheable"`
	// Reload: the response goes through its persisted form (written to a store, read back) before it is served
	Reload bool `json:"reload,omitempty"`
}

func c13Body(size int, seed int64) []byte {
	rng := rand.New(rand.NewSource(seed))
	b := make([]byte, size)
	words := []string{"alpha ", "beta ", "gamma ", "{\"k\":1}", "\n", "delta"}
	i := 0
	for i < size {
		if rng.Intn(4) == 0 {
			b[i] = byte(rng.Intn(256))
			i++
			continue
		}
		i += copy(b[i:], words[rng.Intn(len(words))])
	}
	return b
}

func tokens(ae string) map[string]bool {
	m := map[string]bool{}
	for _, p := range strings.Split(ae, ",") {
		p = strings.TrimSpace(p)
		if p != "" {
			m[p] = true
		}
	}
	return m
}

var c13Once sync.Once

func execC13(cell c13Cell) *vstat.Outcome {
	out := &vstat.Outcome{}
	// a compress profile with the fastest levels, used by half of the responses that are
	// compressed per request: what is stored must be best-compression output whatever was
	// compressed before, at whatever level
	c13Once.Do(func() {
		compress.Reset([]config.CompressConfig{{Name: "c13fast", Levels: map[string]uint{"gzip": 1, "br": 1}}})
	})
	body := c13Body(cell.Size, cell.BodySeed)
	gz := refGzip(body, 6)
	br := refBrotli(body, 5)
	h := http.Header{}
	if cell.CT != "" {
		h.Set("Content-Type", cell.CT)
	}
	h.Set("X-Keep", "1")
	resp := &cache.HTTPResponse{StatusCode: 200, Header: h, CompressMinLength: cell.MinLength}
	var filter *regexp.Regexp
	if cell.Filter != "" {
		filter = regexp.MustCompile(cell.Filter)
		resp.CompressContentTypeFilter = filter
	} else {
		filter = regexp.MustCompile(`text|javascript|json|wasm|xml|font`) // the documented default
	}
	reloadedFromStore := false
	if !cell.Cacheable && cell.BodySeed%2 != 0 {
		resp.CompressSrv = "c13fast"
	}
	if cell.Cacheable {
		// as the proxy creates it: one variant, then the entry becomes cacheable
		resp.RawBody = body
		if cell.Reload {
			// an entry of a cache with a store: what a later lookup (after an eviction, a restart)
			// finds in the store is what gets served
			st := newMapStore()
			key := []byte("GET c13.test /cell")
			hc := cache.NewHTTPStoreCache(key, st)
			if status, _ := hc.Get(); status != cache.StatusFetching {
				out.Violate("C13", "harness", "new entry on an empty store: status %v", status)
				return out
			}
			hc.Cacheable(resp, 60)
			status, back := cache.NewHTTPStoreCache(key, st).Get()
			if status != cache.StatusHit || back == nil {
				out.Violate("C08", "not-restored", "a cacheable response stored a moment ago is not found in the store by a new entry of the key (status %v)", status)
				return out
			}
			resp = back
			reloadedFromStore = true
			out.Class("served_from_the_store_record")
		} else {
			hc := cache.NewHTTPCache()
			hc.Cacheable(resp, 60)
		}
	} else {
		if cell.Stored&1 != 0 {
			resp.RawBody = body
		}
		if cell.Stored&2 != 0 {
			resp.GzipBody = gz
		}
		if cell.Stored&4 != 0 {
			resp.BrBody = br
		}
	}
	storedGz, storedBr, storedRaw := resp.GzipBody, resp.BrBody, resp.RawBody
	if cell.Reload && !reloadedFromStore {
		data, err := resp.Bytes()
		if err != nil {
			out.Violate("C09", "encode", "Bytes failed: %v", err)
			return out
		}
		back := &cache.HTTPResponse{}
		if err := back.FromBytes(data); err != nil {
			out.Violate("C09", "roundtrip", "FromBytes(Bytes(response)) failed: %v", err)
			return out
		}
		resp = back
		out.Class("served_after_a_store_round_trip")
	}
	typeOK := filter.MatchString(cell.CT)

	if cell.Cacheable {
		// compressed once when stored (best-compression profile), raw dropped; small or filtered stays raw
		switch {
		case typeOK && cell.Size > cell.MinLength:
			if len(storedGz) == 0 || len(storedBr) == 0 || len(storedRaw) != 0 {
				out.Violate("C13", "precompress", "cacheable compressible %d-byte %q body (min %d): stored variants raw=%d gzip=%d br=%d, expected gzip+br and no raw", cell.Size, cell.CT, cell.MinLength, len(storedRaw), len(storedGz), len(storedBr))
				return out
			}
			if !bytes.Equal(storedGz, refGzip(body, 9)) {
				out.Violate("C13", "best-compression", "stored gzip variant is not the output of gzip level 9 (best-compression profile)")
			}
			if d, err := refBrotliDecode(storedBr); err != nil || !bytes.Equal(d, body) {
				out.Violate("C13", "precompress", "stored br variant does not decode to the body (%v)", err)
			}
		case !typeOK || cell.Size < cell.MinLength:
			if len(storedGz) != 0 || len(storedBr) != 0 || !bytes.Equal(storedRaw, body) {
				out.Violate("C13", "precompress", "cacheable %d-byte %q body (min %d, type compressible=%v) must stay raw: raw=%d gzip=%d br=%d", cell.Size, cell.CT, cell.MinLength, typeOK, len(storedRaw), len(storedGz), len(storedBr))
				return out
			}
		}
	}

	t := tokens(cell.AE)
	acceptBr, acceptGzip := t["br"], t["gzip"]
	// size class over everything "the body size" can mean here
	sizes := []int{cell.Size}
	for _, v := range [][]byte{storedGz, storedBr} {
		if len(v) > 0 {
			sizes = append(sizes, len(v))
		}
	}
	small, large := true, true
	for _, s := range sizes {
		if s >= cell.MinLength {
			small = false
		}
		if s <= cell.MinLength {
			large = false
		}
	}
	first := fillWith(resp, cell.AE)
	second := fillWith(resp, cell.AE)
	if first.Err != "" {
		out.Violate("C13", "fill", "Fill failed: %s", first.Err)
		return out
	}
	enc := first.Header.Get("Content-Encoding")
	check := func(wantEnc string, verbatim []byte) {
		if enc != wantEnc {
			out.Violate("C13", "table", "AE=%q stored(raw=%d gzip=%d br=%d) size=%d min=%d type=%q(ok=%v): Content-Encoding %q, the decision table says %q",
				cell.AE, len(storedRaw), len(storedGz), len(storedBr), cell.Size, cell.MinLength, cell.CT, typeOK, enc, wantEnc)
			return
		}
		if verbatim != nil && !bytes.Equal(first.Body, verbatim) {
			out.Violate("C13", "verbatim", "the stored %s variant was not sent verbatim", wantEnc)
		}
	}
	boundary := false
	switch {
	case acceptBr && len(storedBr) != 0:
		check("br", storedBr)
	case acceptGzip && len(storedGz) != 0:
		check("gzip", storedGz)
	case !typeOK || small:
		check("", nil)
	case !large:
		boundary = true // sizes straddle or equal the threshold: either identity or compressed
		if enc != "" && !(enc == "br" && acceptBr) && !(enc == "gzip" && acceptGzip && !acceptBr) {
			out.Violate("C13", "table", "AE=%q: Content-Encoding %q is not an outcome of the table", cell.AE, enc)
		}
	case acceptBr:
		check("br", nil)
	case acceptGzip:
		check("gzip", nil)
	default:
		check("", nil)
	}
	// whatever was chosen must decode to the body
	var decoded []byte
	var err error
	switch enc {
	case "":
		decoded = first.Body
	case "gzip":
		decoded, err = refGunzip(first.Body)
	case "br":
		decoded, err = refBrotliDecode(first.Body)
	default:
		err = fmt.Errorf("unknown encoding %q", enc)
	}
	if err != nil || !bytes.Equal(decoded, body) {
		out.Violate("C13", "body", "AE=%q: the %q body does not decode to the original (%v, %d vs %d bytes)", cell.AE, enc, err, len(decoded), len(body))
	}
	if !acceptBr && !acceptGzip && enc != "" {
		out.Violate("C13", "identity", "a client accepting neither gzip nor br (AE=%q) received Content-Encoding %q", cell.AE, enc)
	}
	if first.Header.Get("X-Keep") != "1" || first.Code != 200 {
		out.Violate("C13", "headers", "status/headers not carried over by Fill")
	}
	// serving must not change the entry: a second client of the same type gets the same bytes
	if !bytes.Equal(first.Body, second.Body) || first.Header.Get("Content-Encoding") != second.Header.Get("Content-Encoding") {
		out.Violate("C13", "stable", "two identical clients received different bodies/encodings")
	}
	if !bytes.Equal(resp.GzipBody, storedGz) || !bytes.Equal(resp.BrBody, storedBr) || !bytes.Equal(resp.RawBody, storedRaw) {
		out.Violate("C13", "stable", "Fill changed the stored variants")
	}
	out.NonTrivial = !(cell.AE == "" && cell.Stored == 1 && !cell.Cacheable)
	if boundary {
		out.Class("boundary_cell")
	}
	if cell.Cacheable {
		out.Class("cacheable")
	}
	out.Class("enc_" + enc)
	out.Sig = fmt.Sprintf("%s|%d|%d|%d|%s|%s|%v|%d", cell.AE, cell.Stored, cell.MinLength, cell.Size, cell.CT, cell.Filter, cell.Cacheable, cell.BodySeed)
	return out
}

// plain lists of codings, including other tokens that contain the name of a coding, before
// and after the real one
var c13AEs = []string{"", "gzip", "br", "gzip, br", "br, gzip", "deflate", "gzip, deflate, br", "identity", "zstd", "gzip,br", "deflate, gzip",
	"pack200-gzip", "pack200-gzip, gzip", "x-gzip, gzip", "gzip, pack200-gzip", "x-br, br", "gzip-x, br", "brotli", "brotli, br", "x-gzip, x-br", "xbr,xgzip,gzip"}

func TestC13Table(t *testing.T) {
	rec := vstat.For("C13", t.Name(), "unit")
	if vstat.ReplayOne(t, rec, execC13) {
		return
	}
	bodies := 2
	if vstat.Tier() == "thorough" {
		bodies = 40
	}
	bodies = vstat.Cases(bodies)
	rng := rand.New(rand.NewSource(int64(vstat.Seed())))
	cts := []struct{ ct, filter string }{
		{"application/json", ""}, {"text/html; charset=utf-8", ""}, {"image/png", ""}, {"", ""},
		{"application/json", "json|xml"}, {"text/html", "json|xml"}, {"image/png", "image"}, {"", "json|xml"},
		// filters that match everything, the empty type included
		{"", ".*"}, {"image/png", ".*"}, {"", "^"}, {"", "json|"},
	}
	cells := 0
	shard, nshards := vstat.Shard()
	for aeIdx, ae := range c13AEs {
		if aeIdx%nshards != shard {
			continue
		}
		for stored := 1; stored <= 8; stored++ { // 8 = the cacheable path
			for _, min := range []int{0, 1, 100, 1024} {
				sizes := []int{min, min + 1, 4*min + 57}
				if min > 0 {
					sizes = append(sizes, min-1)
				}
				if min > 1 {
					sizes = append(sizes, 0)
				}
				for _, size := range sizes {
					for _, ct := range cts {
						cells++
						for b := 0; b < bodies; b++ {
							cell := c13Cell{AE: ae, Stored: stored, MinLength: min, Size: size, CT: ct.ct, Filter: ct.filter, BodySeed: rng.Int63()}
							if stored == 8 {
								cell.Stored, cell.Cacheable = 1, true
							}
							cell.Reload = (cell.BodySeed/2)%3 == 0
							if !vstat.RunOne(t, rec, cell, execC13(cell)) {
								return
							}
						}
					}
				}
			}
		}
	}
	rec.SetExtra("cells_enumerated", cells)
	rec.SetExtra("bodies_per_cell", bodies)
}
