//go:build verif

package unit

// C06 (free-running part) — concurrent lookups of different keys that share a
// shard never return each other's entries.  Engine S explores key isolation
// under evictions with a controlled schedule; the dispatcher's lookup itself
// is exercised here under real goroutine scheduling.

import (
	"fmt"
	"net/http"
	"sync"
	"sync/atomic"
	"testing"
	"time"

	"github.com/vicanso/pike/cache"
	"pgregory.net/rapid"

	"verif/harness/internal/vstat"
)

type c06Conc struct {
	Size    int  `json:"size"`    // cache size (small sizes evict)
	Keys    int  `json:"keys"`    // keys, all forced into 1-2 shards
	Shards  int  `json:"shards"`  // how many shards the keys are spread over
	Workers int  `json:"workers"` // goroutines
	Ms      int  `json:"ms"`      // duration
	Purge   bool `json:"purge"`   // a purger runs concurrently
}

func genC06Conc(t *rapid.T) c06Conc {
	return c06Conc{
		Size:    rapid.SampledFrom([]int{16, 64, 1000, 51200}).Draw(t, "size"),
		Keys:    rapid.IntRange(2, 12).Draw(t, "keys"),
		Shards:  rapid.IntRange(1, 2).Draw(t, "shards"),
		Workers: rapid.IntRange(4, 16).Draw(t, "workers"),
		Ms:      rapid.SampledFrom([]int{30, 60, 120}).Draw(t, "ms"),
		Purge:   rapid.Bool().Draw(t, "purge"),
	}
}

func execC06Conc(sc c06Conc) *vstat.Outcome {
	out := &vstat.Outcome{}
	d := cache.NewDispatcher(cache.DispatcherOption{Name: "c06", Size: sc.Size})
	shards := len(d.VerifLen())
	kf := newKeyFinder(shards)
	keys := make([]string, sc.Keys)
	for i := range keys {
		// near-identical keys: same length, one byte apart, same shard(s)
		keys[i] = kf.key(i%sc.Shards, i/sc.Shards)
	}
	var viol atomic.Value
	var lookups, hits int64
	stop := time.Now().Add(time.Duration(sc.Ms) * time.Millisecond)
	var wg sync.WaitGroup
	for w := 0; w < sc.Workers; w++ {
		wg.Add(1)
		go func(w int) {
			defer wg.Done()
			i := w
			for time.Now().Before(stop) && viol.Load() == nil {
				key := keys[i%len(keys)]
				i += 1 + w%3
				hc := d.GetHTTPCache([]byte(key))
				status, resp := hc.Get()
				atomic.AddInt64(&lookups, 1)
				switch status {
				case cache.StatusFetching:
					r, _ := cache.NewHTTPResponse(200, http.Header{"X-Key": []string{key}}, "", []byte("body of "+key))
					hc.Cacheable(r, 60)
				case cache.StatusHit:
					atomic.AddInt64(&hits, 1)
					if resp == nil || resp.Header.Get("X-Key") != key {
						got := "<nil>"
						if resp != nil {
							got = resp.Header.Get("X-Key")
						}
						viol.Store(fmt.Sprintf("lookup of %q was answered with the entry stored for %q", key, got))
					}
				}
			}
		}(w)
	}
	if sc.Purge {
		wg.Add(1)
		go func() {
			defer wg.Done()
			i := 0
			for time.Now().Before(stop) && viol.Load() == nil {
				d.RemoveHTTPCache([]byte(keys[i%len(keys)]))
				i++
				time.Sleep(200 * time.Microsecond)
			}
		}()
	}
	wg.Wait()
	if v := viol.Load(); v != nil {
		out.Violate("C06", "concurrent-lookup", "%s (%d keys in %d shard(s), cache size %d)", v.(string), sc.Keys, sc.Shards, sc.Size)
	}
	out.NonTrivial = hits > 100 && sc.Keys >= 2
	out.Evals = int(lookups)
	return out
}

func TestC06Concurrent(t *testing.T) {
	vstat.Run(t, "C06", "unit", genC06Conc, execC06Conc)
}
