//go:build verif

package unit

// C01 (free-running part) — a burst of N concurrent requests on a cold key
// shares one entry and elects exactly one fetcher.  Engine S explores the
// interleavings of waiters with completion, expiry and purge at its yield
// points, but the get-or-create of the entry in the dispatcher has no yield
// point; this test exercises it under real goroutine scheduling: N goroutines
// released by a barrier do what the cache middleware does.

import (
	"fmt"
	"net/http"
	"runtime"
	"sync"
	"sync/atomic"
	"testing"
	"time"

	"github.com/vicanso/pike/cache"
	"pgregory.net/rapid"

	"verif/harness/internal/vstat"
)

type c01Burst struct {
	Size    int `json:"size"`    // cache size
	Workers int `json:"workers"` // concurrent requests per burst
	Rounds  int `json:"rounds"`  // cold keys, one burst each
	Spin    int `json:"spin"`    // busy iterations before the lookup, staggered per worker
	HoldMs  int `json:"holdMs,omitempty"` // how long the elected fetcher takes before it stores the response
}

func genC01Burst(t *rapid.T) c01Burst {
	sc := c01Burst{
		Size:    rapid.SampledFrom([]int{0, 1000, 51200}).Draw(t, "size"),
		Workers: rapid.IntRange(2, 32).Draw(t, "workers"),
		Rounds:  rapid.IntRange(100, 400).Draw(t, "rounds"),
		Spin:    rapid.IntRange(0, 200).Draw(t, "spin"),
	}
	if rapid.IntRange(0, 3).Draw(t, "large") == 0 {
		// a large burst behind a fetch that takes a while: "any number of concurrent requests"
		sc.Workers = rapid.SampledFrom([]int{130, 200, 300, 600}).Draw(t, "manyWorkers")
		sc.HoldMs = rapid.SampledFrom([]int{10, 30}).Draw(t, "holdMs")
		sc.Rounds = rapid.IntRange(5, 20).Draw(t, "fewRounds")
	}
	return sc
}

var c01BurstSeq int64

func execC01Burst(sc c01Burst) *vstat.Outcome {
	out := &vstat.Outcome{}
	d := cache.NewDispatcher(cache.DispatcherOption{Name: "burst", Size: sc.Size})
	seq := atomic.AddInt64(&c01BurstSeq, 1)
	overlaps := 0
	for r := 0; r < sc.Rounds; r++ {
		key := fmt.Sprintf("GET burst.test /b/%d/%d", seq, r)
		var fetchers, hits, others int64
		var start, done sync.WaitGroup
		start.Add(1)
		entries := make([]interface{}, sc.Workers)
		for w := 0; w < sc.Workers; w++ {
			done.Add(1)
			go func(w int) {
				defer done.Done()
				start.Wait()
				x := 0
				for i := 0; i < sc.Spin*(w%4); i++ {
					x += i
				}
				_ = x
				// a fresh byte slice per request, as server.getKey does
				hc := d.GetHTTPCache([]byte(key))
				entries[w] = hc
				status, resp := hc.Get()
				switch status {
				case cache.StatusFetching:
					atomic.AddInt64(&fetchers, 1)
					runtime.Gosched()
					if sc.HoldMs > 0 {
						time.Sleep(time.Duration(sc.HoldMs) * time.Millisecond)
					}
					r, _ := cache.NewHTTPResponse(200, http.Header{"Content-Type": []string{"text/plain"}}, "", []byte("body of "+key))
					hc.Cacheable(r, 60)
				case cache.StatusHit:
					if resp == nil {
						atomic.AddInt64(&others, 1)
					} else {
						atomic.AddInt64(&hits, 1)
					}
				default:
					atomic.AddInt64(&others, 1)
				}
			}(w)
		}
		start.Done()
		done.Wait()
		distinct := map[interface{}]bool{}
		for _, e := range entries {
			distinct[e] = true
		}
		if fetchers != 1 || len(distinct) != 1 || hits != int64(sc.Workers-1) {
			out.Violate("C01", "cold-burst", "burst %d of %d concurrent requests on the cold key %q: %d request(s) were told to fetch (want 1), %d distinct entries (want 1), %d hits (want %d), %d other", r, sc.Workers, key, fetchers, len(distinct), hits, sc.Workers-1, others)
			return out
		}
		if hits > 0 {
			overlaps++
		}
	}
	out.NonTrivial = overlaps > 0
	out.Evals = sc.Rounds
	return out
}

func TestC01ColdBurst(t *testing.T) {
	vstat.Run(t, "C01", "unit", genC01Burst, execC01Burst)
}
