//go:build verif

package unit

// C11 — resident cache entries never exceed the configured size; LRU order per shard.
//
// Scenario: a cache size and a list of get/remove operations on keys that are
// addressed abstractly as (shard, index) — MemHash is seeded per process, so
// the concrete key strings are searched at run time (the j-th candidate string
// that hashes into shard s), which keeps a saved scenario replayable.
//
// Oracle: an LRU model fed only by *observed* facts — the number of shards is
// len(VerifLen()), a key's shard is MemHash%shards, evictions are those
// reported by the LRU library's callback.  The per-shard capacity is never
// assumed; any layout that keeps total<=S and evicts LRU-first passes.

import (
	"fmt"
	"math/rand"
	"testing"

	"github.com/vicanso/pike/cache"
	"pgregory.net/rapid"

	"verif/harness/internal/vstat"
)

type c11Op struct {
	Remove bool `json:"remove,omitempty"`
	Shard  int  `json:"shard"`
	Idx    int  `json:"idx"`
}

type c11Scenario struct {
	Size int     `json:"size"`
	Ops  []c11Op `json:"ops"`
}

// keyFinder materialises (shard, idx) -> key string for a given shard count
type keyFinder struct {
	shards  int
	buckets [][]string
	next    int
}

func newKeyFinder(shards int) *keyFinder {
	return &keyFinder{shards: shards, buckets: make([][]string, shards)}
}

func (kf *keyFinder) key(shard, idx int) string {
	shard = ((shard % kf.shards) + kf.shards) % kf.shards
	for len(kf.buckets[shard]) <= idx {
		k := fmt.Sprintf("GET c11.test /k%d", kf.next)
		kf.next++
		s := int(cache.MemHash([]byte(k)) % uint64(kf.shards))
		kf.buckets[s] = append(kf.buckets[s], k)
	}
	return kf.buckets[shard][idx]
}

type evEvent struct {
	shard int
	key   string
}

func execC11(sc c11Scenario) *vstat.Outcome {
	out := &vstat.Outcome{}
	d := cache.NewDispatcher(cache.DispatcherOption{Name: "c11", Size: sc.Size})
	lens := d.VerifLen()
	shards := len(lens)
	if shards == 0 {
		out.Violate("C11", "layout", "dispatcher of size %d has no shard", sc.Size)
		return out
	}
	kf := newKeyFinder(shards)
	var events []evEvent
	d.VerifOnEvicted(func(shard int, key string) {
		events = append(events, evEvent{shard, key})
	})
	// model: per shard, keys ordered most-recently-used first
	model := make([][]string, shards)
	entries := map[string]interface{}{}
	total := 0
	evictions := 0
	maxTotal := 0
	find := func(list []string, k string) int {
		for i, x := range list {
			if x == k {
				return i
			}
		}
		return -1
	}
	for i, op := range sc.Ops {
		key := kf.key(op.Shard, op.Idx)
		shard := int(cache.MemHash([]byte(key)) % uint64(shards))
		events = events[:0]
		pos := find(model[shard], key)
		if op.Remove {
			d.RemoveHTTPCache([]byte(key))
			if pos >= 0 {
				if len(events) != 1 || events[0].key != key || events[0].shard != shard {
					out.Violate("C11", "remove", "op %d remove(%q) of a resident key reported removals %v", i, key, events)
					return out
				}
				model[shard] = append(model[shard][:pos:pos], model[shard][pos+1:]...)
				delete(entries, key)
				total--
			} else if len(events) != 0 {
				out.Violate("C11", "remove", "op %d remove(%q) of a non-resident key dropped %v", i, key, events)
				return out
			}
		} else {
			// a fresh byte slice per call, as server.getKey does
			hc := d.GetHTTPCache([]byte(key))
			if pos >= 0 {
				if len(events) != 0 {
					out.Violate("C11", "evict", "op %d get(%q) of a resident key dropped %v", i, key, events)
					return out
				}
				if entries[key] != interface{}(hc) {
					out.Violate("C11", "identity", "op %d get(%q): key stayed resident but a different entry came back", i, key)
					return out
				}
				// refresh recency
				model[shard] = append(model[shard][:pos:pos], model[shard][pos+1:]...)
				model[shard] = append([]string{key}, model[shard]...)
			} else {
				if old, ok := entries[key]; ok && old == interface{}(hc) {
					out.Violate("C11", "identity", "op %d get(%q): key was dropped but the old entry came back", i, key)
					return out
				}
				if st := hc.GetStatus(); st != cache.StatusUnknown {
					out.Violate("C11", "fresh", "op %d get(%q): entry created after a drop has status %v", i, key, st)
					return out
				}
				model[shard] = append([]string{key}, model[shard]...)
				entries[key] = hc
				total++
				if len(events) > 1 {
					out.Violate("C11", "evict", "op %d get(%q) dropped %d keys: %v", i, key, len(events), events)
					return out
				}
				if len(events) == 1 {
					ev := events[0]
					evictions++
					if ev.shard != shard {
						out.Violate("C11", "evict", "op %d get(%q) in shard %d evicted %q from shard %d", i, key, shard, ev.key, ev.shard)
						return out
					}
					lst := model[shard]
					if len(lst) < 2 || lst[len(lst)-1] != ev.key {
						lru := ""
						if len(lst) > 0 {
							lru = lst[len(lst)-1]
						}
						out.Violate("C11", "lru", "op %d get(%q): evicted %q but the least recently used key of shard %d is %q (order, MRU first: %v)", i, key, ev.key, shard, lru, lst)
						return out
					}
					model[shard] = lst[:len(lst)-1]
					delete(entries, ev.key)
					total--
				}
			}
		}
		lens = d.VerifLen()
		sum := 0
		for s, n := range lens {
			sum += n
			if n != len(model[s]) {
				out.Violate("C11", "accounting", "op %d: shard %d holds %d keys, harness counted %d", i, s, n, len(model[s]))
				return out
			}
		}
		if sum > maxTotal {
			maxTotal = sum
		}
		if sum > sc.Size {
			out.Violate("C11", "bound", "size %d: %d keys resident after op %d (%d shards)", sc.Size, sum, i, shards)
			return out
		}
	}
	out.NonTrivial = evictions >= 1 && (sc.Size%shards != 0 || sc.Size < 16)
	if evictions >= 1 {
		out.Class("evicted")
	}
	if maxTotal == sc.Size {
		out.Class("reached_size")
	}
	if sc.Size < 8 {
		out.Class("size_lt_8")
	}
	if sc.Size >= 1024 {
		out.Class("size_ge_1024")
	}
	return out
}

func genC11(t *rapid.T) c11Scenario {
	var size int
	switch rapid.IntRange(0, 9).Draw(t, "sizeClass") {
	case 0, 1:
		size = rapid.IntRange(1, 16).Draw(t, "size")
	case 2, 3, 4, 5:
		size = rapid.IntRange(1, 300).Draw(t, "size")
	case 6:
		size = rapid.SampledFrom([]int{1023, 1024, 1025, 1151, 1152, 1280}).Draw(t, "size")
	case 7:
		size = rapid.IntRange(301, 1100).Draw(t, "size")
	default:
		size = rapid.SampledFrom([]int{4096, 51200}).Draw(t, "size")
	}
	return genC11Ops(t, size)
}

func genC11Ops(t *rapid.T, size int) c11Scenario {
	shards := 8
	if size >= 1024 {
		shards = 128
	}
	// concentrate on a few shards so that evictions are reached with short sequences
	focus := rapid.IntRange(1, 3).Draw(t, "focus")
	focusShards := make([]int, focus)
	for i := range focusShards {
		focusShards[i] = rapid.IntRange(0, shards-1).Draw(t, "focusShard")
	}
	perShard := size/shards + 2
	if size > 2048 {
		perShard = size/shards + 1
	}
	n := rapid.IntRange(4, 4*perShard*focus+16).Draw(t, "n")
	if n > 3000 {
		n = 3000
	}
	ops := make([]c11Op, 0, n)
	for i := 0; i < n; i++ {
		var op c11Op
		if rapid.IntRange(0, 9).Draw(t, "uniformShard") == 0 {
			op.Shard = rapid.IntRange(0, shards-1).Draw(t, "shard")
		} else {
			op.Shard = focusShards[rapid.IntRange(0, focus-1).Draw(t, "fs")]
		}
		switch rapid.IntRange(0, 9).Draw(t, "kind") {
		case 0, 1, 2: // recently used key of that shard again
			found := false
			back := rapid.IntRange(1, 6).Draw(t, "back")
			for j := len(ops) - 1; j >= 0; j-- {
				if ops[j].Shard == op.Shard && !ops[j].Remove {
					back--
					if back == 0 {
						op.Idx = ops[j].Idx
						found = true
						break
					}
				}
			}
			if !found {
				op.Idx = rapid.IntRange(0, perShard+2).Draw(t, "idx")
			}
		default:
			op.Idx = rapid.IntRange(0, 2*perShard+4).Draw(t, "idx")
		}
		op.Remove = rapid.IntRange(0, 11).Draw(t, "remove") == 0
		ops = append(ops, op)
	}
	return c11Scenario{Size: size, Ops: ops}
}

// TestC11Random: rapid-generated sizes and access sequences
func TestC11Random(t *testing.T) {
	vstat.Run(t, "C11", "unit", genC11, execC11)
}

// TestC11AllSizes: every size 1..300 plus the edges, each with a generated
// sequence that overfills every shard (sizes enumerated exhaustively, the
// sequences come from a PRNG seeded by VERIF_SEED; the scenario is saved on failure)
func TestC11AllSizes(t *testing.T) {
	rec := vstat.For("C11", t.Name(), "unit")
	if vstat.ReplayOne(t, rec, execC11) {
		return
	}
	sizes := []int{}
	for s := 1; s <= 300; s++ {
		sizes = append(sizes, s)
	}
	sizes = append(sizes, 1023, 1024, 1025, 2047, 2048, 4096)
	if vstat.Tier() == "thorough" {
		sizes = append(sizes, 12800, 51200)
		for s := 301; s <= 1300; s += 7 {
			sizes = append(sizes, s)
		}
	}
	rng := rand.New(rand.NewSource(int64(vstat.Seed())))
	for _, size := range sizes {
		shards := 8
		if size >= 1024 {
			shards = 128
		}
		per := size/shards + 2
		sc := c11Scenario{Size: size}
		// phase 1: fill every shard beyond any possible capacity, with re-use
		for s := 0; s < shards; s++ {
			for j := 0; j < per+1; j++ {
				sc.Ops = append(sc.Ops, c11Op{Shard: s, Idx: j})
				if rng.Intn(3) == 0 {
					sc.Ops = append(sc.Ops, c11Op{Shard: s, Idx: rng.Intn(j + 1)})
				}
			}
		}
		// phase 2: random traffic
		extra := 4 * size
		if extra > 6000 {
			extra = 6000
		}
		for j := 0; j < extra; j++ {
			sc.Ops = append(sc.Ops, c11Op{Shard: rng.Intn(shards), Idx: rng.Intn(2*per + 2), Remove: rng.Intn(15) == 0})
		}
		out := execC11(sc)
		out.Sig = fmt.Sprintf("size=%d", size)
		if !vstat.RunOne(t, rec, sc, out) {
			return
		}
	}
	rec.SetExtra("sizes_enumerated", len(sizes))
}
