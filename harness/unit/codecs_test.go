//go:build verif

package unit

// Reference codecs used as oracles (module-cache libraries and the stdlib,
// plus a hand-written LZ4 block encoder that is independent of the library
// pike decodes with).

import (
	"bytes"
	"compress/gzip"
	"errors"
	"io"

	"github.com/andybalholm/brotli"
	"github.com/golang/snappy"
	"github.com/klauspost/compress/zstd"
	"github.com/pierrec/lz4"
)

func refGzip(data []byte, level int) []byte {
	var buf bytes.Buffer
	w, _ := gzip.NewWriterLevel(&buf, level)
	_, _ = w.Write(data)
	_ = w.Close()
	return buf.Bytes()
}

// refGunzip decodes with the stdlib reader and insists on a clean end of
// stream (trailer present and correct, nothing after it)
func refGunzip(data []byte) ([]byte, error) {
	r, err := gzip.NewReader(bytes.NewReader(data))
	if err != nil {
		return nil, err
	}
	r.Multistream(false)
	out, err := io.ReadAll(r)
	if err != nil {
		return nil, err
	}
	if err := r.Close(); err != nil {
		return nil, err
	}
	return out, nil
}

func refBrotli(data []byte, q int) []byte {
	var buf bytes.Buffer
	w := brotli.NewWriterLevel(&buf, q)
	_, _ = w.Write(data)
	_ = w.Close()
	return buf.Bytes()
}

func refBrotliDecode(data []byte) ([]byte, error) {
	return io.ReadAll(brotli.NewReader(bytes.NewReader(data)))
}

func refSnappy(data []byte) []byte { return snappy.Encode(nil, data) }

func refZstd(data []byte, level int) []byte {
	enc, _ := zstd.NewWriter(nil, zstd.WithEncoderLevel(zstd.EncoderLevel(level)), zstd.WithEncoderConcurrency(1))
	defer enc.Close()
	return enc.EncodeAll(data, nil)
}

// ---- LZ4 block format (https://github.com/lz4/lz4/blob/dev/doc/lz4_Block_format.md)

func lz4Len(dst []byte, n int) []byte {
	for n >= 255 {
		dst = append(dst, 255)
		n -= 255
	}
	return append(dst, byte(n))
}

// lz4Seq appends one sequence: literals, then (if matchLen>0) a match
func lz4Seq(dst, literals []byte, offset, matchLen int) []byte {
	tok := byte(0)
	ll := len(literals)
	if ll >= 15 {
		tok = 15 << 4
	} else {
		tok = byte(ll) << 4
	}
	ml := 0
	if matchLen > 0 {
		ml = matchLen - 4
		if ml >= 15 {
			tok |= 15
		} else {
			tok |= byte(ml)
		}
	}
	dst = append(dst, tok)
	if ll >= 15 {
		dst = lz4Len(dst, ll-15)
	}
	dst = append(dst, literals...)
	if matchLen > 0 {
		dst = append(dst, byte(offset), byte(offset>>8))
		if ml >= 15 {
			dst = lz4Len(dst, ml-15)
		}
	}
	return dst
}

// refLZ4Literal: one literal-only sequence (valid for any non-empty input)
func refLZ4Literal(data []byte) []byte {
	return lz4Seq(nil, data, 0, 0)
}

// refLZ4Greedy: a small independent greedy encoder (hash of 4 bytes, 64 KiB window)
func refLZ4Greedy(data []byte) []byte {
	n := len(data)
	if n < 13 {
		return refLZ4Literal(data)
	}
	var dst []byte
	table := map[uint32]int{}
	anchor := 0
	i := 0
	limit := n - 12 // last match must start at least 12 bytes before the end
	for i <= limit {
		key := uint32(data[i]) | uint32(data[i+1])<<8 | uint32(data[i+2])<<16 | uint32(data[i+3])<<24
		cand, ok := table[key]
		table[key] = i
		if !ok || i-cand > 65535 || i-cand <= 0 {
			i++
			continue
		}
		// extend; the last 5 bytes stay literals
		ml := 4
		for i+ml < n-5 && data[cand+ml] == data[i+ml] {
			ml++
		}
		dst = lz4Seq(dst, data[anchor:i], i-cand, ml)
		i += ml
		anchor = i
	}
	return lz4Seq(dst, data[anchor:], 0, 0)
}

var errLZ4 = errors.New("lz4: pierrec encoder refused")

func refLZ4Pierrec(data []byte, hc bool) ([]byte, error) {
	buf := make([]byte, lz4.CompressBlockBound(len(data)))
	var n int
	var err error
	if hc {
		n, err = lz4.CompressBlockHC(data, buf, 0)
	} else {
		n, err = lz4.CompressBlock(data, buf, nil)
	}
	if err != nil || n == 0 {
		return nil, errLZ4 // incompressible: the library says "store raw"
	}
	return buf[:n], nil
}
