//go:build verif

package unit

// C12 — compression codecs are exact inverses for every input and level.

import (
	"bytes"
	"encoding/binary"
	"fmt"
	"testing"
	"time"

	"github.com/vicanso/pike/compress"
	"pgregory.net/rapid"

	"verif/harness/internal/vstat"
)

type c12Input struct {
	Size  int    `json:"size"`
	Shape string `json:"shape"` // random | run | period | text | mixed
	Seed  uint32 `json:"seed"`
	Level int    `json:"level"`
	// Reload (encoders only): the levels reach an existing profile through a configuration update
	// (it had PrevLevel before) instead of a freshly created service
	Reload    bool `json:"reload,omitempty"`
	PrevLevel int  `json:"prevLevel,omitempty"`
}

func (in c12Input) bytes() []byte {
	b := make([]byte, in.Size)
	x := uint64(in.Seed)*2862933555777941757 + 3037000493
	next := func() uint64 { x = x*2862933555777941757 + 3037000493; return x >> 33 }
	switch in.Shape {
	case "stream", "magic":
		// the data is itself a compressed file (a .gz, .zst ... served as it is), or at least
		// begins like one
		inner := c12Input{Size: in.Size / 2, Shape: "text", Seed: in.Seed}.bytes()
		kind := in.Seed % 5
		if in.Shape == "magic" {
			magic := [][]byte{{0x1f, 0x8b, 0x08}, {0x28, 0xb5, 0x2f, 0xfd}, {0xff, 0x06, 0x00, 0x00, 0x73, 0x4e, 0x61, 0x50, 0x70, 0x59}, {0x04, 0x22, 0x4d, 0x18}, {0xce, 0xb2, 0xcf, 0x81}}[kind]
			rnd := c12Input{Size: in.Size, Shape: "random", Seed: in.Seed + 1}.bytes()
			return append(append([]byte{}, magic...), rnd...)
		}
		var enc []byte
		switch kind {
		case 0:
			enc = refGzip(inner, 6)
		case 1:
			enc = refZstd(inner, 1)
		case 2:
			enc = refSnappy(inner)
		case 3:
			enc = refBrotli(inner, 4)
		default:
			if len(inner) == 0 {
				inner = []byte{1}
			}
			enc = refLZ4Greedy(inner)
		}
		if in.Seed%3 == 0 {
			enc = append(enc, []byte("trailing text after the stream")...)
		}
		return enc
	case "random":
		for i := range b {
			b[i] = byte(next())
		}
	case "run":
		c := byte(in.Seed)
		for i := range b {
			b[i] = c
		}
	case "period":
		p := int(in.Seed%7) + 2
		for i := range b {
			b[i] = byte('a' + i%p)
		}
	case "text":
		words := []string{`{"id":`, `"name":"`, "lorem", "ipsum", `","tags":[`, "dolor", `],"ok":true}`, " ", "\n", "12345", "αβγ"}
		i := 0
		for i < len(b) {
			w := words[next()%uint64(len(words))]
			i += copy(b[i:], w)
		}
	default: // mixed runs + noise
		i := 0
		for i < len(b) {
			l := int(next()%300) + 1
			if next()%2 == 0 {
				c := byte(next())
				for j := 0; j < l && i < len(b); j++ {
					b[i] = c
					i++
				}
			} else {
				for j := 0; j < l && i < len(b); j++ {
					b[i] = byte(next())
					i++
				}
			}
		}
	}
	return b
}

func genC12Input(maxSize int) func(t *rapid.T) c12Input {
	return func(t *rapid.T) c12Input {
		var size int
		switch rapid.IntRange(0, 9).Draw(t, "sizeClass") {
		case 0:
			size = rapid.SampledFrom([]int{0, 1}).Draw(t, "size")
		case 1, 2:
			size = rapid.IntRange(2, 64).Draw(t, "size")
		case 3, 4, 5:
			size = rapid.IntRange(65, 4096).Draw(t, "size")
		case 6, 7:
			size = rapid.IntRange(4097, 65536).Draw(t, "size")
		default:
			if maxSize > 65537 {
				size = rapid.IntRange(65537, maxSize).Draw(t, "size")
			} else {
				size = rapid.IntRange(0, maxSize).Draw(t, "size")
			}
		}
		if size > maxSize {
			size = maxSize
		}
		return c12Input{
			Size:      size,
			Shape:     rapid.SampledFrom([]string{"random", "run", "period", "text", "mixed", "text", "stream", "magic"}).Draw(t, "shape"),
			Seed:      rapid.Uint32().Draw(t, "seed"),
			Level:     rapid.IntRange(-1, 12).Draw(t, "level"),
			Reload:    rapid.IntRange(0, 2).Draw(t, "reload") == 0,
			PrevLevel: rapid.IntRange(0, 12).Draw(t, "prevLevel"),
		}
	}
}

func guard(out *vstat.Outcome, what string, f func()) {
	defer func() {
		if r := recover(); r != nil {
			out.Violate("C12", "panic", "%s panicked: %v", what, r)
		}
	}()
	start := time.Now()
	f()
	// a call that never returns is ended by the job's deadline; this only flags calls that are
	// out of all proportion (brotli at level 11 needs seconds for three 1 MiB bodies, and
	// tens of seconds when every core is busy with other checks)
	if d := time.Since(start); d > 300*time.Second {
		out.Violate("C12", "hang", "%s took %s", what, d)
	}
}

// encoders: pike's gzip/brotli at the configured level must produce complete
// streams that the standard decoders and pike's own decoders restore
func execC12Encode(in c12Input) *vstat.Outcome {
	out := &vstat.Outcome{}
	data := in.bytes()
	srv := compress.NewService()
	srv.SetLevels(map[string]int{"gzip": in.Level, "br": in.Level})
	if in.Reload {
		// the way a running instance gets its levels: the profile exists (with other levels) and a
		// configuration update changes them
		cs := compress.NewServices(nil)
		cs.Reset([]compress.CompressOption{{Name: "c12", Levels: map[string]int{"gzip": in.PrevLevel, "br": in.PrevLevel}}})
		cs.Reset([]compress.CompressOption{{Name: "c12", Levels: map[string]int{"gzip": in.Level, "br": in.Level}}})
		srv = cs.Get("c12")
	}
	// Several bodies are encoded first and verified afterwards: a stream handed
	// out by an encoder must stay valid while later encode calls run.
	bodies := [][]byte{data}
	if len(data) > 0 {
		rev := make([]byte, len(data))
		for i := range data {
			rev[len(data)-1-i] = data[i]
		}
		bodies = append(bodies, rev, data[:len(data)/2+1])
	} else {
		bodies = append(bodies, []byte("a"), []byte("lorem ipsum"))
	}
	gzs := make([][]byte, len(bodies))
	brs := make([][]byte, len(bodies))
	guard(out, "Gzip/Brotli", func() {
		for i, b := range bodies {
			var err error
			if gzs[i], err = srv.Gzip(b); err != nil {
				out.Violate("C12", "gzip", "Gzip(level %d, %d bytes %s) failed: %v", in.Level, len(b), in.Shape, err)
				return
			}
			if brs[i], err = srv.Brotli(b); err != nil {
				out.Violate("C12", "br", "Brotli(level %d, %d bytes %s) failed: %v", in.Level, len(b), in.Shape, err)
				return
			}
		}
	})
	if len(out.Violations) > 0 {
		return out
	}
	for i, data := range bodies {
		gz, br := gzs[i], brs[i]
		which := fmt.Sprintf("stream %d of %d", i+1, len(bodies))
		guard(out, "Gunzip", func() {
			back, err := refGunzip(gz)
			if err != nil {
				out.Violate("C12", "gzip", "standard gzip reader rejects %s of Gzip(level %d, %d bytes %s): %v", which, in.Level, len(data), in.Shape, err)
			} else if !bytes.Equal(back, data) {
				out.Violate("C12", "gzip", "standard gzip reader restores %d bytes from %s, input had %d (level %d, %s)", len(back), which, len(data), in.Level, in.Shape)
			}
			own, err := srv.Gunzip(gz)
			if err != nil || !bytes.Equal(own, data) {
				out.Violate("C12", "gzip", "Gunzip(Gzip(x)) != x (%s, level %d, %d bytes %s, err %v)", which, in.Level, len(data), in.Shape, err)
			}
			viaDecompress, err := srv.Decompress("gzip", gz)
			if err != nil || !bytes.Equal(viaDecompress, data) {
				out.Violate("C12", "dispatch", "Decompress(gzip) does not restore the input (err %v)", err)
			}
		})
		guard(out, "BrotliDecode", func() {
			back, err := refBrotliDecode(br)
			if err != nil {
				out.Violate("C12", "br", "reference brotli reader rejects %s of Brotli(level %d, %d bytes %s): %v", which, in.Level, len(data), in.Shape, err)
			} else if !bytes.Equal(back, data) {
				out.Violate("C12", "br", "reference brotli reader restores %d bytes from %s, input had %d (level %d, %s)", len(back), which, len(data), in.Level, in.Shape)
			}
			own, err := srv.BrotliDecode(br)
			if err != nil || !bytes.Equal(own, data) {
				out.Violate("C12", "br", "BrotliDecode(Brotli(x)) != x (%s, level %d, %d bytes %s, err %v, got %d bytes)", which, in.Level, len(data), in.Shape, err, len(own))
			}
			viaDecompress, err := srv.Decompress("br", br)
			if err != nil || !bytes.Equal(viaDecompress, data) {
				out.Violate("C12", "dispatch", "Decompress(br) does not restore the input (err %v)", err)
			}
		})
	}
	out.NonTrivial = in.Size >= 65 || in.Level < 1 || in.Level > 9
	out.Class("shape_" + in.Shape)
	if in.Level < 0 || in.Level > 11 {
		out.Class("level_out_of_range")
	}
	if in.Reload {
		out.Class("levels_set_by_a_configuration_update")
	}
	if in.Size >= 65536 {
		out.Class("size>=64KiB")
	}
	return out
}

func TestC12Encode(t *testing.T) {
	max := 256 << 10
	if vstat.Tier() == "thorough" {
		max = 1 << 20
	}
	vstat.Run(t, "C12", "unit", genC12Input(max), execC12Encode)
}

// decoders: every valid stream produced by a reference encoder is restored
func execC12Decode(in c12Input) *vstat.Outcome {
	out := &vstat.Outcome{}
	data := in.bytes()
	srv := compress.NewService()
	type stream struct {
		enc, how string
		bytes    []byte
	}
	var streams []stream
	gl := in.Level
	if gl < 1 || gl > 9 {
		gl = 6
	}
	bl := in.Level
	if bl < 0 || bl > 11 {
		bl = 5
	}
	zl := in.Level%4 + 1
	if zl < 1 {
		zl = 1
	}
	streams = append(streams, stream{"gzip", fmt.Sprintf("stdlib gzip level %d", gl), refGzip(data, gl)})
	streams = append(streams, stream{"br", fmt.Sprintf("brotli q%d", bl), refBrotli(data, bl)})
	streams = append(streams, stream{"snz", "snappy block", refSnappy(data)})
	streams = append(streams, stream{"zst", fmt.Sprintf("zstd level %d", zl), refZstd(data, zl)})
	// streams made of several members / frames are valid streams of their formats
	if cut := len(data) / 3; true {
		a, b, c := data[:cut], data[cut:2*cut], data[2*cut:]
		multi := append(append(append([]byte{}, refGzip(a, gl)...), refGzip(b, 1)...), refGzip(c, 9)...)
		streams = append(streams, stream{"gzip", "three concatenated gzip members", multi})
		zmulti := append(append([]byte{}, refZstd(a, 1)...), refZstd(append(append([]byte{}, b...), c...), zl)...)
		streams = append(streams, stream{"zst", "two concatenated zstd frames", zmulti})
		// skippable frames (RFC 8878 3.1.2: magic 0x184D2A5x, 4-byte size, user data) may stand anywhere in a stream
		skip := func(nibble byte, user []byte) []byte {
			f := []byte{0x50 | nibble, 0x2A, 0x4D, 0x18, byte(len(user)), byte(len(user) >> 8), byte(len(user) >> 16), byte(len(user) >> 24)}
			return append(f, user...)
		}
		if in.Seed%4 == 0 { // pike's zst decoder leaks its goroutines and buffers per call: keep the number of zst decodes per process where it was
			lead := append(skip(byte(in.Seed)&15, []byte("user data of a skippable frame")[:int(in.Seed>>4)%31]), refZstd(data, zl)...)
			streams = append(streams, stream{"zst", "zstd frame after a leading skippable frame", lead})
			trail := append(append([]byte{}, refZstd(data, zl)...), skip(0, nil)...)
			streams = append(streams, stream{"zst", "zstd frame followed by an empty skippable frame", trail})
		}
	}
	if len(data) > 0 {
		streams = append(streams, stream{"lz4", "literal-only block", refLZ4Literal(data)})
		streams = append(streams, stream{"lz4", "independent greedy encoder", refLZ4Greedy(data)})
		if b, err := refLZ4Pierrec(data, false); err == nil {
			streams = append(streams, stream{"lz4", "pierrec CompressBlock", b})
		}
		if b, err := refLZ4Pierrec(data, true); err == nil {
			streams = append(streams, stream{"lz4", "pierrec CompressBlockHC", b})
		}
	}
	maxRatio := 0
	for _, s := range streams {
		s := s
		if len(s.bytes) > 0 && len(data)/len(s.bytes) > maxRatio {
			maxRatio = len(data) / len(s.bytes)
		}
		if s.enc == "lz4" && len(s.bytes) > 0 && len(data) > 10*len(s.bytes) && vstat.KnownOpen("lz4-ratio-above-10") {
			if out.Excluded == nil {
				out.Excluded = map[string]int{}
			}
			out.Excluded["lz4-ratio-above-10"]++
			continue
		}
		guard(out, s.enc+" decode", func() {
			got, err := srv.Decompress(s.enc, s.bytes)
			if err != nil {
				out.Violate("C12", s.enc, "decoder rejects a valid %s stream (%s; %d bytes -> %d bytes, ratio %.1f, %s): %v", s.enc, s.how, len(data), len(s.bytes), float64(len(data))/float64(len(s.bytes)+1), in.Shape, err)
			} else if !bytes.Equal(got, data) {
				out.Violate("C12", s.enc, "decoder restores %d bytes from a valid %s stream (%s) of a %d-byte input", len(got), s.enc, s.how, len(data))
			}
		})
	}
	out.NonTrivial = in.Size >= 65 || maxRatio > 10
	out.Class("shape_" + in.Shape)
	if maxRatio > 10 {
		out.Class("ratio>10")
	}
	if maxRatio > 100 {
		out.Class("ratio>100")
	}
	return out
}

func TestC12Decode(t *testing.T) {
	max := 256 << 10
	if vstat.Tier() == "thorough" {
		max = 1 << 20
	}
	vstat.Run(t, "C12", "unit", genC12Input(max), execC12Decode)
}

// malformed streams: never a panic or a hang
type c12Mal struct {
	In   c12Input `json:"in"`
	Enc  string   `json:"enc"`
	Kind string   `json:"kind"` // trunc | flip | splice | hostile | random
	Pos  int      `json:"pos"`
	N    int      `json:"n"`
}

func genC12Mal(encs []string) func(t *rapid.T) c12Mal {
	return func(t *rapid.T) c12Mal {
		in := genC12Input(8192)(t)
		return c12Mal{In: in, Enc: rapid.SampledFrom(encs).Draw(t, "enc"),
			Kind: rapid.SampledFrom([]string{"trunc", "trunc", "flip", "flip", "splice", "hostile", "hostile", "random"}).Draw(t, "kind"),
			Pos:  rapid.IntRange(0, 1<<16).Draw(t, "pos"), N: rapid.IntRange(0, 7).Draw(t, "n")}
	}
}

func (m c12Mal) bytes() []byte {
	data := m.In.bytes()
	var s []byte
	switch m.Enc {
	case "gzip":
		s = refGzip(data, 6)
	case "br":
		s = refBrotli(data, 4)
	case "snz":
		s = refSnappy(data)
	case "zst":
		s = refZstd(data, 1)
	default:
		if len(data) == 0 {
			data = []byte{1}
		}
		s = refLZ4Greedy(data)
	}
	b := append([]byte{}, s...)
	x := uint64(m.In.Seed)*6364136223846793005 + 1442695040888963407
	next := func() uint64 { x = x*6364136223846793005 + 1442695040888963407; return x >> 33 }
	switch m.Kind {
	case "trunc":
		if len(b) > 0 {
			b = b[:m.Pos%len(b)]
		}
	case "flip":
		for i := 0; i < max(m.N, 1) && len(b) > 0; i++ {
			b[(m.Pos+int(next()))%len(b)] ^= 1 << (next() % 8)
		}
	case "splice":
		if len(b) > 2 {
			c := m.Pos % len(b)
			b = append(append([]byte{}, b[c:]...), b[:c]...)
		}
	case "hostile":
		// hostile length fields: snappy varint / zstd frame content size / gzip ISIZE / lz4 long lengths
		consts := []uint64{0, 1, 0x7f, 0x80, 0xff, 0xffff, 1 << 20, 0x7fffffff, 0x80000000, 0xffffffff, 1 << 32, 1 << 40, 1 << 62, 1<<63 - 1, 1 << 63, 1<<63 + 1, ^uint64(0), uint64(len(data)) + 1}
		pick := consts[m.Pos%len(consts)]
		switch m.Enc {
		case "snz":
			if m.N%2 == 0 {
				b = append(binary.AppendUvarint(nil, uint64(1<<uint(10+m.N*3))), b...)
			} else {
				// replace the declared length
				_, n := binary.Uvarint(b)
				if n > 0 {
					b = append(binary.AppendUvarint(nil, pick), b[n:]...)
				}
			}
		case "lz4":
			pre := []byte{0xff}
			for i := 0; i < m.N*2; i++ {
				pre = append(pre, 255)
			}
			b = append(append(pre, byte(pick)), b...)
		case "zst":
			// a new frame header in front of the blocks of the valid frame: every layout of the
			// descriptor (content-size field of 1, 2, 4 or 8 bytes, single segment or a window
			// descriptor) with a hostile declared size
			if hl := zstHeaderLen(b); hl > 0 && hl <= len(b) {
				fcsFlag := byte(m.N % 4)
				single := m.N >= 4 || fcsFlag == 0 && m.Pos%2 == 0
				d := fcsFlag << 6
				if single {
					d |= 0x20
				}
				h := []byte{0x28, 0xb5, 0x2f, 0xfd, d}
				if !single {
					h = append(h, byte(m.Pos>>4)&0xf8|byte(m.Pos&7))
				}
				switch fcsFlag {
				case 0:
					if single {
						h = append(h, byte(pick))
					}
				case 1:
					h = binary.LittleEndian.AppendUint16(h, uint16(pick))
				case 2:
					h = binary.LittleEndian.AppendUint32(h, uint32(pick))
				case 3:
					h = binary.LittleEndian.AppendUint64(h, pick)
				}
				b = append(h, b[hl:]...)
			}
		case "gzip":
			// ISIZE (and with it the trailer) of the member
			if len(b) >= 8 {
				binary.LittleEndian.PutUint32(b[len(b)-4:], uint32(pick))
				if m.N%2 == 0 {
					// a second member follows, so the first trailer is not at the end
					b = append(b, refGzip(data, 1)...)
				}
			}
		default:
			if len(b) > 8 {
				for i := 4; i < 8; i++ {
					b[i] = 0xff
				}
			}
		}
	default:
		b = make([]byte, m.Pos%300)
		for i := range b {
			b[i] = byte(next())
		}
	}
	return b
}

// zstHeaderLen: the length of the frame header of a zstd frame (0 when b is not one)
func zstHeaderLen(b []byte) int {
	if len(b) < 6 || binary.LittleEndian.Uint32(b) != 0xFD2FB528 {
		return 0
	}
	d := b[4]
	pos := 5
	if d&0x20 == 0 {
		pos++
	}
	pos += []int{0, 1, 2, 4}[d&3]
	switch d >> 6 {
	case 0:
		if d&0x20 != 0 {
			pos++
		}
	case 1:
		pos += 2
	case 2:
		pos += 4
	case 3:
		pos += 8
	}
	return pos
}

// declaredTooBig: the decoded size a snappy block / zstd frame announces up front is one the
// decoder library allocates before it looks at the data (a memory cost of the run, not a
// panic or a hang). Sizes the libraries refuse outright (snappy above 4 GiB, zstd from
// 1 GiB) cost nothing and stay in.
func declaredTooBig(enc string, b []byte) bool {
	switch enc {
	case "snz":
		v, n := binary.Uvarint(b)
		return n > 0 && v > 16<<20 && v <= 0xffffffff
	case "zst":
		// frame header: magic(4) descriptor(1) [window(1)] [dict] [content size]
		if len(b) < 6 || binary.LittleEndian.Uint32(b) != 0xFD2FB528 {
			return false
		}
		d := b[4]
		fcs := d >> 6
		single := d&0x20 != 0
		pos := 5
		if !single {
			// window descriptor: exponent in the top 5 bits
			if e := b[5] >> 3; e > 14 && e <= 20 { // window above 16 MiB; above 1 GiB it is refused
				return true
			}
			pos++
		}
		switch d & 3 {
		case 1:
			pos++
		case 2:
			pos += 2
		case 3:
			pos += 4
		}
		var size uint64
		switch fcs {
		case 0:
			if single && len(b) > pos {
				size = uint64(b[pos])
			}
		case 1:
			if len(b) >= pos+2 {
				size = uint64(binary.LittleEndian.Uint16(b[pos:])) + 256
			}
		case 2:
			if len(b) >= pos+4 {
				size = uint64(binary.LittleEndian.Uint32(b[pos:]))
			}
		case 3:
			if len(b) >= pos+8 {
				size = binary.LittleEndian.Uint64(b[pos:])
			}
		}
		return size > 16<<20 && size < 1<<30
	}
	return false
}

func execC12Mal(m c12Mal) *vstat.Outcome {
	out := &vstat.Outcome{}
	b := m.bytes()
	if declaredTooBig(m.Enc, b) {
		out.Excluded = map[string]int{"declared-size-above-16MiB": 1}
		return out
	}
	srv := compress.NewService()
	guard(out, m.Enc+" decode of a malformed stream", func() {
		_, _ = srv.Decompress(m.Enc, b)
	})
	// a decoder that has just been given a malformed stream still restores a valid one
	valid := bytes.Repeat([]byte(fmt.Sprintf("after malformed stream of %d bytes: lorem ipsum dolor sit amet. ", len(b))), 1+len(b)%7)
	var vs []byte
	switch m.Enc {
	case "gzip":
		vs = refGzip(valid, 6)
	case "br":
		vs = refBrotli(valid, 5)
	case "lz4":
		vs = refLZ4Literal(valid)
	case "snz":
		vs = refSnappy(valid)
	case "zst":
		vs = refZstd(valid, 1)
	}
	if vs != nil {
		guard(out, m.Enc+" decode of a valid stream after a malformed one", func() {
			got, err := srv.Decompress(m.Enc, vs)
			if err != nil {
				out.Violate("C12", m.Enc, "right after a malformed %s stream (%s, %d bytes) was given to the decoder, a valid %s stream of %d bytes is rejected: %v", m.Enc, m.Kind, len(b), m.Enc, len(valid), err)
			} else if !bytes.Equal(got, valid) {
				out.Violate("C12", m.Enc, "right after a malformed %s stream (%s, %d bytes) was given to the decoder, a valid %s stream is restored to %d bytes instead of its %d", m.Enc, m.Kind, len(b), m.Enc, len(got), len(valid))
			}
		})
	}
	out.NonTrivial = len(b) >= 4
	out.Class("enc_" + m.Enc)
	out.Class("kind_" + m.Kind)
	return out
}

func TestC12Malformed(t *testing.T) {
	vstat.Run(t, "C12", "unit", genC12Mal([]string{"gzip", "br", "lz4", "snz"}), execC12Mal)
}

// zstd leaks goroutines per decoder instance; run its malformed-stream check
// separately (GOMAXPROCS=1 is set by the driver for this job)
func TestC12MalformedZstd(t *testing.T) {
	vstat.Run(t, "C12", "unit", genC12Mal([]string{"zst"}), execC12Mal)
}
