//go:build verif

package unit

// C09 (through the store path) — "encoding any cache entry (any state, ...,
// timestamps) and decoding it yields an entry that behaves identically": a hit
// or hit-for-pass entry with generated timestamps relative to now (lifetimes
// from a minute to decades, ages from 0 to years) is encoded, put into a store,
// and found there by a new entry of its key, the way an evicted or restarted
// cache finds it. The restored entry must be in the same state, report the
// same age and answer like the original.

import (
	"fmt"
	"testing"
	"time"

	"github.com/vicanso/pike/cache"
	"pgregory.net/rapid"

	"verif/harness/internal/vstat"
)

type c09Stored struct {
	Entry   c09Entry `json:"entry"`
	AgeSec  int64    `json:"ageSec"`  // created this long ago
	LeftSec int64    `json:"leftSec"` // expires in this many seconds
}

func genC09Stored(t *rapid.T) c09Stored {
	e := genC09Entry(false)(t)
	e.Status = rapid.SampledFrom([]int{3, 3, 3, 2}).Draw(t, "storedStatus") // hit, hit-for-pass
	if e.Status == 3 && !e.HasResp {
		e.Status = 2
	}
	return c09Stored{Entry: e,
		AgeSec:  rapid.SampledFrom([]int64{0, 1, 59, 3600, 86400 * 30, 86400 * 366, 86400 * 3650}).Draw(t, "ageSec"),
		LeftSec: rapid.SampledFrom([]int64{60, 300, 86400, 86400 * 364, 31536000, 31536001, 31557600, 86400 * 400, 315360000, 1 << 31, 1 << 40}).Draw(t, "leftSec"),
	}
}

func execC09Stored(sc c09Stored) *vstat.Outcome {
	out := &vstat.Outcome{}
	now := time.Now().Unix()
	e := sc.Entry
	e.CreatedAt, e.ExpiredAt = now-sc.AgeSec, now+sc.LeftSec
	src := e.build()
	data, err := src.Bytes()
	if err != nil {
		out.Violate("C09", "encode", "Bytes failed: %v", err)
		return out
	}
	st := newMapStore()
	key := []byte("GET c09.test /stored")
	_ = st.Set(key, data, time.Duration(sc.LeftSec)*time.Second)
	hc := cache.NewHTTPStoreCache(key, st)
	status, resp := hc.Get()
	want := cache.Status(e.Status)
	what := fmt.Sprintf("a %v entry created %d s ago that expires in %d s (%.1f days)", want, sc.AgeSec, sc.LeftSec, float64(sc.LeftSec)/86400)
	if status != want {
		out.Violate("C09", "restored-state", "%s, written to a store and looked up by a new entry of its key: the entry is in state %v (a request would be treated as %v)", what, status, status)
		if status == cache.StatusFetching {
			hc.HitForPass(1)
		}
		return out
	}
	if got := int64(hc.Age()); got < sc.AgeSec || got > sc.AgeSec+2 {
		out.Violate("C09", "restored-age", "%s: the restored entry reports an age of %d s", what, got)
	}
	if want == cache.StatusHit {
		if resp == nil {
			out.Violate("C09", "restored-response", "%s: restored without its response", what)
			return out
		}
		type respOf interface {
			VerifEntryFields() (cache.Status, *cache.HTTPResponse, int64, int64)
		}
		_, orig, _, _ := src.(respOf).VerifEntryFields()
		for _, ae := range []string{"", "gzip", "br", "gzip, br"} {
			a, b := fillWith(orig, ae), fillWith(resp, ae)
			if a.Err != b.Err || a.Code != b.Code || string(a.Body) != string(b.Body) || fmt.Sprint(a.Header) != fmt.Sprint(b.Header) {
				out.Violate("C09", "behaviour", "%s: a client sending Accept-Encoding %q is answered differently by the restored entry (err %q/%q status %d/%d body %d/%d bytes)", what, ae, a.Err, b.Err, a.Code, b.Code, len(a.Body), len(b.Body))
				break
			}
		}
	}
	out.NonTrivial = sc.LeftSec > 86400*365 || sc.AgeSec > 0
	if sc.LeftSec > 86400*365 {
		out.Class("lifetime_beyond_a_year")
	}
	return out
}

func TestC09StoreRestore(t *testing.T) {
	vstat.Run(t, "C09", "unit", genC09Stored, execC09Stored)
}
