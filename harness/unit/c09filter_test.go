//go:build verif

package unit

// C09 (compression settings of an entry): the content-type filter travels with
// every persisted response. Any filter that the configuration validation accepts
// for a server must survive the encode/decode round trip of an entry of that
// server -- the decoder refuses filters above the size the validation allows, so
// the two limits have to agree (for ASCII and for multi-byte text alike).

import (
	"fmt"
	"net/http"
	"regexp"
	"strings"
	"testing"

	"github.com/vicanso/pike/cache"
	"github.com/vicanso/pike/config"
	"pgregory.net/rapid"

	"verif/harness/internal/vstat"
)

type c09Filter struct {
	Unit  string `json:"unit"`  // the alternative repeated to build the filter
	Count int    `json:"count"` // alternatives
	Tail  string `json:"tail,omitempty"`
}

func (f c09Filter) text() string {
	parts := make([]string, f.Count)
	for i := range parts {
		parts[i] = f.Unit
	}
	return strings.Join(parts, "|") + f.Tail
}

func genC09Filter(t *rapid.T) c09Filter {
	unit := rapid.SampledFrom([]string{"json", "text/html", "é", "日本", "x", "ü-type", "𝔘"}).Draw(t, "unit")
	// aim at lengths around 1000 bytes and around 1000 characters
	per := len(unit) + 1
	perRunes := len([]rune(unit)) + 1
	target := rapid.SampledFrom([]int{1, 5, 1000 / per, 1000/per - 1, 1000/per + 1, 1000 / perRunes, 1000/perRunes - 1, 1000/perRunes + 1, 3000 / per}).Draw(t, "count")
	if target < 1 {
		target = 1
	}
	return c09Filter{Unit: unit, Count: target, Tail: rapid.SampledFrom([]string{"", "|a", "|ab", "|é"}).Draw(t, "tail")}
}

func execC09Filter(f c09Filter) *vstat.Outcome {
	out := &vstat.Outcome{}
	text := f.text()
	cfg := config.PikeConfig{
		Caches:    []config.CacheConfig{{Name: "c", Size: 10, HitForPass: "1m"}},
		Upstreams: []config.UpstreamConfig{{Name: "u", Servers: []config.UpstreamServerConfig{{Addr: "http://127.0.0.1:9"}}}},
		Locations: []config.LocationConfig{{Name: "l", Upstream: "u"}},
		Servers:   []config.ServerConfig{{Addr: "127.0.0.1:0", Locations: []string{"l"}, Cache: "c", CompressContentTypeFilter: text}},
	}
	out.Class(fmt.Sprintf("bytes_%s_1000", map[bool]string{true: "above", false: "upto"}[len(text) > 1000]))
	if err := cfg.Validate(); err != nil {
		out.Class("rejected_by_validate")
		return out
	}
	out.Class("accepted_by_validate")
	re, err := regexp.Compile(text)
	if err != nil {
		out.Violate("C17", "filter-accepted-but-no-regexp", "the validation accepts a content-type filter of %d bytes that does not compile: %v", len(text), err)
		return out
	}
	resp, _ := cache.NewHTTPResponse(200, http.Header{"Content-Type": []string{"text/plain"}}, "", []byte("body"))
	resp.CompressContentTypeFilter = re
	resp.CompressMinLength = 1024
	hc := cache.VerifNewEntry(cache.StatusHit, resp, 1700000000, 1700003600)
	data, err := hc.Bytes()
	if err != nil {
		out.Violate("C09", "encode", "an entry of a server whose accepted filter has %d bytes (%d characters) does not encode: %v", len(text), len([]rune(text)), err)
		return out
	}
	back := cache.NewHTTPCache()
	if err := back.FromBytes(data); err != nil {
		out.Violate("C09", "filter-accepted-but-not-decodable", "an entry of a server whose filter the configuration validation accepts (%d bytes, %d characters) cannot be decoded again: %v", len(text), len([]rune(text)), err)
		return out
	}
	_, r2, _, _ := back.VerifEntryFields()
	if r2 == nil || r2.CompressContentTypeFilter == nil || r2.CompressContentTypeFilter.String() != re.String() {
		out.Violate("C09", "filter-changed", "the filter of %d bytes came back different", len(text))
	}
	out.NonTrivial = len(text) > 900
	return out
}

func TestC09FilterLimit(t *testing.T) {
	vstat.Run(t, "C09", "unit", genC09Filter, execC09Filter)
}
