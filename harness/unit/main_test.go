//go:build verif

package unit

import (
	"testing"

	"verif/harness/internal/vstat"
)

func TestMain(m *testing.M) { vstat.Main(m) }
