// Package vstat is the shared bookkeeping of the verification harness:
// per-run statistics (cases, classes, distinct non-trivial cases, samples),
// violation/replay files, known-findings lookup and the generic rapid driver.
package vstat

import (
	"encoding/binary"
	"encoding/json"
	"fmt"
	"hash/fnv"
	"os"
	"path/filepath"
	"sort"
	"strconv"
	"strings"
	"sync"
	"testing"

	"pgregory.net/rapid"
)

// Viol is one oracle violation
type Viol struct {
	Property string `json:"property"`
	Oracle   string `json:"oracle"`
	Msg      string `json:"msg"`
}

// Outcome is what an executor reports for one scenario
type Outcome struct {
	Violations   []Viol
	NonTrivial   bool
	Sig          string // distinctness signature; "" = canonical JSON of the scenario
	Classes      []string
	Excluded     map[string]int
	Inconclusive bool
	Evals        int // if >0, number of evaluations this scenario stands for (default 1)
}

func (o *Outcome) Violate(property, oracle, format string, args ...interface{}) {
	o.Violations = append(o.Violations, Viol{Property: property, Oracle: oracle, Msg: fmt.Sprintf(format, args...)})
}

func (o *Outcome) Class(c string) { o.Classes = append(o.Classes, c) }

type violRecord struct {
	Viol
	Replay string `json:"replay"`
}

// Recorder collects the statistics of one (property, test)
type Recorder struct {
	mu           sync.Mutex
	Property     string
	Test         string
	Engine       string
	cases        int64
	evals        int64
	nontrivial   int64
	inconclusive int64
	classes      map[string]int64
	excluded     map[string]int64
	samples      []json.RawMessage
	sampleSeen   int64
	hashes       map[uint64]struct{}
	violations   []violRecord
	foreign      map[string]int64
	extra        map[string]interface{}
	failed       bool
}

var (
	regMu     sync.Mutex
	recorders = map[string]*Recorder{}
)

const maxSamples = 6

// For returns the recorder of (property, test)
func For(property, test, engine string) *Recorder {
	regMu.Lock()
	defer regMu.Unlock()
	k := property + "/" + test
	r := recorders[k]
	if r == nil {
		r = &Recorder{Property: property, Test: test, Engine: engine,
			classes: map[string]int64{}, excluded: map[string]int64{},
			hashes: map[uint64]struct{}{}, foreign: map[string]int64{}, extra: map[string]interface{}{}}
		recorders[k] = r
	}
	return r
}

func hash64(s []byte) uint64 {
	h := fnv.New64a()
	_, _ = h.Write(s)
	return h.Sum64()
}

// SetExtra stores an extra evidence key
func (r *Recorder) SetExtra(k string, v interface{}) {
	r.mu.Lock()
	defer r.mu.Unlock()
	r.extra[k] = v
}

// AddClass adds n to a class counter
func (r *Recorder) AddClass(c string, n int64) {
	r.mu.Lock()
	defer r.mu.Unlock()
	r.classes[c] += n
}

// Failed tells whether a violation of the own property was recorded
func (r *Recorder) Failed() bool {
	r.mu.Lock()
	defer r.mu.Unlock()
	return r.failed
}

// Record books one executed scenario. It returns the violations that count for
// the recorder's property: every oracle of a run states a clause of one of the
// listed properties, and none of them fires on a tree where the properties
// hold, so an oracle that the model attributes to another property (a response
// served without a fetch is at once a matter of C01, C03, C04 and C06, say)
// still fails the check under which the scenario was generated. The original
// attribution is kept in the oracle name and counted.
func (r *Recorder) Record(scenario interface{}, out *Outcome) []Viol {
	r.mu.Lock()
	defer r.mu.Unlock()
	var own []Viol
	for _, v := range out.Violations {
		if v.Property == r.Property || v.Property == "" {
			own = append(own, v)
		} else {
			if !r.failed {
				r.foreign[v.Property+":"+v.Oracle]++
			}
			own = append(own, Viol{Property: r.Property, Oracle: v.Property + "/" + v.Oracle, Msg: "[oracle of " + v.Property + "] " + v.Msg})
		}
	}
	if r.failed {
		// shrinking phase: statistics are frozen, only the replay file is refreshed
		if len(own) > 0 {
			r.writeReplayLocked(scenario, own)
		}
		return own
	}
	r.cases++
	if out.Evals > 0 {
		r.evals += int64(out.Evals)
	} else {
		r.evals++
	}
	for _, c := range out.Classes {
		r.classes[c]++
	}
	for k, n := range out.Excluded {
		r.excluded[k] += int64(n)
	}
	if out.Inconclusive {
		r.inconclusive++
	}
	if out.NonTrivial {
		r.nontrivial++
		var raw []byte
		sig := out.Sig
		if sig == "" || len(r.samples) < maxSamples || r.sampleSeen%997 == 0 {
			raw, _ = json.Marshal(scenario)
		}
		if sig == "" {
			sig = string(raw)
		}
		h := hash64([]byte(sig))
		if _, ok := r.hashes[h]; !ok {
			r.hashes[h] = struct{}{}
			r.sampleSeen++
			if raw != nil && len(raw) < 16384 {
				if len(r.samples) < maxSamples {
					r.samples = append(r.samples, raw)
				} else if r.sampleSeen%997 == 0 {
					r.samples[int(r.sampleSeen/997)%maxSamples] = raw
				}
			}
		}
	}
	if len(own) > 0 {
		r.failed = true
		r.writeReplayLocked(scenario, own)
	}
	return own
}

// ReplayFile is the on-disk format of a saved failing scenario
type ReplayFile struct {
	Property   string          `json:"property"`
	Engine     string          `json:"engine"`
	Test       string          `json:"test"`
	Seed       string          `json:"seed"`
	Shard      string          `json:"shard"`
	Violations []Viol          `json:"violations"`
	Scenario   json.RawMessage `json:"scenario"`
}

func verifRoot() string {
	if d := os.Getenv("VERIF_ROOT"); d != "" {
		return d
	}
	return "/verif"
}

func (r *Recorder) replayPath() string {
	seed := os.Getenv("VERIF_SEED")
	if seed == "" {
		seed = "1"
	}
	shard := os.Getenv("VERIF_SHARD")
	if shard == "" {
		shard = "0"
	}
	dir := os.Getenv("VERIF_REPLAY_DIR")
	if dir == "" {
		dir = filepath.Join(verifRoot(), "replays")
	}
	return filepath.Join(dir, fmt.Sprintf("%s-%s-s%s-%s.json", r.Property, r.Test, seed, shard))
}

func (r *Recorder) writeReplayLocked(scenario interface{}, own []Viol) {
	if os.Getenv("VERIF_REPLAY") != "" {
		return // replaying: do not overwrite
	}
	raw, err := json.Marshal(scenario)
	if err != nil {
		raw = []byte(`"unserialisable scenario"`)
	}
	rf := ReplayFile{Property: r.Property, Engine: r.Engine, Test: r.Test,
		Seed: os.Getenv("VERIF_SEED"), Shard: os.Getenv("VERIF_SHARD"), Violations: own, Scenario: raw}
	p := r.replayPath()
	_ = os.MkdirAll(filepath.Dir(p), 0o755)
	data, _ := json.MarshalIndent(rf, "", " ")
	_ = os.WriteFile(p, data, 0o644)
	// keep only the latest (=most shrunk) violation record
	r.violations = []violRecord{}
	for _, v := range own {
		r.violations = append(r.violations, violRecord{Viol: v, Replay: p})
	}
}

type statsFile struct {
	Property     string                 `json:"property"`
	Test         string                 `json:"test"`
	Engine       string                 `json:"engine"`
	Cases        int64                  `json:"cases"`
	Evals        int64                  `json:"evals"`
	NonTrivial   int64                  `json:"nontrivial"`
	Inconclusive int64                  `json:"inconclusive"`
	Classes      map[string]int64       `json:"classes"`
	Excluded     map[string]int64       `json:"excluded"`
	Samples      []json.RawMessage      `json:"samples"`
	Violations   []violRecord           `json:"violations"`
	Foreign      map[string]int64       `json:"foreign_violations"`
	Extra        map[string]interface{} `json:"extra"`
	HashFile     string                 `json:"hash_file"`
}

// FlushAll writes every recorder to $VERIF_STATS_DIR (no-op when unset)
func FlushAll() {
	dir := os.Getenv("VERIF_STATS_DIR")
	if dir == "" {
		return
	}
	regMu.Lock()
	defer regMu.Unlock()
	_ = os.MkdirAll(dir, 0o755)
	keys := make([]string, 0, len(recorders))
	for k := range recorders {
		keys = append(keys, k)
	}
	sort.Strings(keys)
	for _, k := range keys {
		r := recorders[k]
		r.mu.Lock()
		base := fmt.Sprintf("%s.%s.%d", r.Property, r.Test, os.Getpid())
		hf := filepath.Join(dir, base+".hashes")
		buf := make([]byte, 0, 8*len(r.hashes))
		for h := range r.hashes {
			buf = binary.LittleEndian.AppendUint64(buf, h)
		}
		_ = os.WriteFile(hf, buf, 0o644)
		sf := statsFile{Property: r.Property, Test: r.Test, Engine: r.Engine, Cases: r.cases, Evals: r.evals,
			NonTrivial: r.nontrivial, Inconclusive: r.inconclusive, Classes: r.classes, Excluded: r.excluded,
			Samples: r.samples, Violations: r.violations, Foreign: r.foreign, Extra: r.extra, HashFile: hf}
		data, _ := json.Marshal(sf)
		_ = os.WriteFile(filepath.Join(dir, base+".stats.json"), data, 0o644)
		r.mu.Unlock()
	}
}

// Main is the TestMain body shared by all engine packages
func Main(m *testing.M) {
	code := m.Run()
	FlushAll()
	os.Exit(code)
}

// ---------------------------------------------------------------------
// known findings

// Finding is one entry of /verif/known_findings.json
type Finding struct {
	Property  string `json:"property"`
	State     string `json:"state"` // open | fixed
	Signature string `json:"signature"`
	What      string `json:"what"`
	Probe     string `json:"probe"`
	Commit    string `json:"commit,omitempty"`
}

var (
	findingsOnce sync.Once
	findings     []Finding
)

func loadFindings() {
	p := os.Getenv("VERIF_KNOWN")
	if p == "" {
		p = filepath.Join(verifRoot(), "known_findings.json")
	}
	data, err := os.ReadFile(p)
	if err != nil {
		return
	}
	_ = json.Unmarshal(data, &findings)
}

// KnownOpen tells whether signature is listed as an open finding
// (generators then exclude it by construction and count the exclusion)
func KnownOpen(signature string) bool {
	findingsOnce.Do(loadFindings)
	if os.Getenv("VERIF_NO_EXCLUDE") != "" {
		return false
	}
	for _, f := range findings {
		if f.Signature == signature && f.State == "open" {
			return true
		}
	}
	return false
}

// ---------------------------------------------------------------------
// generic driver

// Cases returns the requested number of cases for a non-rapid loop
func Cases(def int) int {
	if s := os.Getenv("VERIF_CASES"); s != "" {
		if n, err := strconv.Atoi(s); err == nil && n > 0 {
			return n
		}
	}
	return def
}

// Shard returns (shard index, number of shards) of this process
func Shard() (int, int) {
	sh, _ := strconv.Atoi(os.Getenv("VERIF_SHARD"))
	n, _ := strconv.Atoi(os.Getenv("VERIF_NSHARDS"))
	if n <= 0 {
		n = 1
	}
	return sh % n, n
}

// Tier returns quick or thorough
func Tier() string {
	if os.Getenv("VERIF_TIER") == "thorough" {
		return "thorough"
	}
	return "quick"
}

// Seed returns VERIF_SEED combined with the shard (never 0)
func Seed() uint64 {
	s, _ := strconv.ParseUint(os.Getenv("VERIF_SEED"), 10, 64)
	sh, _ := strconv.ParseUint(os.Getenv("VERIF_SHARD"), 10, 64)
	z := s*0x9E3779B97F4A7C15 + sh*0xBF58476D1CE4E5B9 + 0x94D049BB133111EB
	z ^= z >> 30
	z *= 0xBF58476D1CE4E5B9
	z ^= z >> 27
	if z == 0 {
		z = 1
	}
	return z
}

// Run drives one property: in replay mode it executes the saved scenario
// once, otherwise it lets rapid generate scenarios. exec must be a pure
// function of the scenario.
func Run[S any](t *testing.T, property, engine string, gen func(*rapid.T) S, exec func(S) *Outcome) {
	t.Helper()
	rec := For(property, t.Name(), engine)
	if p := os.Getenv("VERIF_REPLAY"); p != "" {
		data, err := os.ReadFile(p)
		if err != nil {
			t.Fatalf("replay: %v", err)
		}
		var rf ReplayFile
		if err := json.Unmarshal(data, &rf); err != nil {
			t.Fatalf("replay: %v", err)
		}
		if rf.Test != t.Name() {
			t.Skipf("replay file is for test %s", rf.Test)
		}
		var s S
		if err := json.Unmarshal(rf.Scenario, &s); err != nil {
			t.Fatalf("replay scenario: %v", err)
		}
		out := exec(s)
		own := rec.Record(s, out)
		for _, v := range out.Violations {
			t.Logf("violation %s/%s: %s", v.Property, v.Oracle, v.Msg)
		}
		if len(own) > 0 {
			t.Fatalf("replay reproduces %d violation(s) of %s", len(own), property)
		}
		t.Logf("replay: no violation of %s", property)
		return
	}
	rapid.Check(t, func(rt *rapid.T) {
		s := gen(rt)
		out := exec(s)
		own := rec.Record(s, out)
		if len(own) > 0 {
			msgs := make([]string, 0, len(own))
			for _, v := range own {
				msgs = append(msgs, v.Oracle+": "+v.Msg)
			}
			rt.Fatalf("%s violated: %s", property, strings.Join(msgs, " | "))
		}
	})
}

// RunOne books and checks a single scenario outside rapid (exhaustive loops, probes)
func RunOne(t *testing.T, rec *Recorder, scenario interface{}, out *Outcome) bool {
	t.Helper()
	own := rec.Record(scenario, out)
	if len(own) > 0 {
		for _, v := range own {
			t.Errorf("%s violated: %s: %s", rec.Property, v.Oracle, v.Msg)
		}
		return false
	}
	return true
}

// ReplayOne handles replay mode for non-rapid tests: returns true when the
// test was run as a replay (or skipped because the file is for another test).
func ReplayOne[S any](t *testing.T, rec *Recorder, exec func(S) *Outcome) bool {
	t.Helper()
	p := os.Getenv("VERIF_REPLAY")
	if p == "" {
		return false
	}
	data, err := os.ReadFile(p)
	if err != nil {
		t.Fatalf("replay: %v", err)
	}
	var rf ReplayFile
	if err := json.Unmarshal(data, &rf); err != nil {
		t.Fatalf("replay: %v", err)
	}
	if rf.Test != t.Name() {
		t.Skipf("replay file is for test %s", rf.Test)
		return true
	}
	var s S
	if err := json.Unmarshal(rf.Scenario, &s); err != nil {
		t.Fatalf("replay scenario: %v", err)
	}
	out := exec(s)
	own := rec.Record(s, out)
	for _, v := range out.Violations {
		t.Logf("violation %s/%s: %s", v.Property, v.Oracle, v.Msg)
	}
	if len(own) > 0 {
		t.Fatalf("replay reproduces %d violation(s) of %s", len(own), rec.Property)
	}
	t.Logf("replay: no violation of %s", rec.Property)
	return true
}
