#!/usr/bin/env python3
import json,sys
for f in sys.argv[1:]:
    r=json.load(open(f))
    print('=====',f)
    for v in r['violations']: print('  VIOL',v['property'],v['oracle'],v['msg'])
    sc=r['scenario']
    if isinstance(sc,dict) and 'ops' in sc:
        print('  cfg',sc.get('cfg'),'keys',sc.get('keys'))
        for i,o in enumerate(sc['ops']): print('  ',i,json.dumps(o))
    else:
        print(json.dumps(sc)[:3000])
