#!/bin/bash
# keepmut.sh <outdir> <seeded id> <property> "<needs>" "<what I ran / result>"
set -e
D=$1; SID=$2; P=$3; NEEDS=$4; RAN=$5
T=/verif/seeded/$SID; mkdir -p $T
cp $D/patch.diff $T/; cp $D/*_test.go $T/ 2>/dev/null || true; cp $D/README.md $T/ 2>/dev/null || true; cp $D/demo_cmd.txt $T/ 2>/dev/null || true
python3 - "$T" "$P" "$NEEDS" "$RAN" <<'PY'
import json,sys
t,p,needs,ran=sys.argv[1:5]
json.dump({"breaks_property":p,"needs_to_manifest":needs,"what_i_ran":ran},open(t+"/meta.json","w"),indent=1)
PY
echo kept $T
